"""C11 -- saved histories, design spaces, problems and caches reload identically (writer/reader agreement)."""

from __future__ import annotations

import ast
import re

from gv import rules
from gv.astutil import arg_or_kw
from gv.astutil import as_update
from gv.astutil import compare_parts
from gv.astutil import const_value
from gv.astutil import dotted
from gv.astutil import kwarg
from gv.astutil import last_attr
from gv.astutil import mangle
from gv.astutil import names_in
from gv.astutil import norm_stmt
from gv.astutil import stmts_of
from gv.astutil import unparse
from gv.astutil import walk_body
from gv.cfg import cfg_of
from gv.dataflow import SymValues
from gv.props import describe
from gv.props.shared import branch_conditions
from gv.props.shared import h5py_files_in_with
from gv.props.shared import store_protocol
from gv.report import Ctx
from gv.report import cname

HD = "algos/_hdf_database.py"
DS = "algos/design_space.py"
OP = "algos/optimization_problem.py"
HS = "caches/_hdf5_file_singleton.py"

describe(
    "C11",
    explanation=(
        "Value equality through HDF5/CSV is NOT decided (h5py is trusted). Decided: writer and reader of each "
        "file format use one table of group / dataset / attribute names and the same index-as-name convention; "
        "every entry of the problem description that the writer takes from a special place is put back there by "
        "the reader; append bookkeeping is affine-consistent (offset = current length, resize by the number "
        "appended, ids of missing outputs follow the existing ones in the sorted order in which names are "
        "appended); the pending protocol is ordered (pending before notification, cleared after the file is "
        "closed, create-or-append by presence of the index in the file); every h5py.File is a context manager."
    ),
    decided=["11.1 writer/reader name tables", "11.2 append bookkeeping", "11.3 pending protocol", "11.4 files closed", "11.1 CSV rows of a variable", "11.6 function descriptions, solution dictionary, lists of strings", "11.7 every name written is relative to the node of the object"],
    not_decided=["value equality through HDF5 / text formats", "text precision"],
    trusted=["h5py dataset/group semantics"],
)


def _str_consts_of_calls(func: ast.AST, names: tuple[str, ...]) -> dict[str, str]:
    """variable -> literal for ``var = <obj>.<name>("lit")`` / ``var = obj["lit"]`` assignments."""
    out = {}
    for s in stmts_of(func):
        if isinstance(s, ast.Assign) and isinstance(s.targets[0], ast.Name):
            v = s.value
            if isinstance(v, ast.Call) and last_attr(v) in names and v.args and isinstance(v.args[0], ast.Constant) and isinstance(v.args[0].value, str):
                out[s.targets[0].id] = v.args[0].value
            elif isinstance(v, ast.Subscript) and isinstance(v.slice, ast.Constant) and isinstance(v.slice.value, str):
                out[s.targets[0].id] = v.slice.value
            elif isinstance(v, ast.Call) and last_attr(v) == "get_hdf5_group" and len(v.args) == 2 and isinstance(v.args[1], ast.Constant):
                out[s.targets[0].id] = v.args[1].value
    return out


# ---------------------------------------------------------------------------
# spelling-independent readings of expressions

_SYM: dict = {}


def _sym(func: ast.AST) -> SymValues:
    if id(func) not in _SYM:
        _SYM[id(func)] = (func, SymValues(func, max_len=700))  # func kept alive so that id() stays unique
    return _SYM[id(func)][1]


def _texts(func: ast.AST, expr: ast.AST | None) -> list[str]:
    """The alternatives of ``expr`` (a node of ``func``) with the locals it reads replaced by their definitions."""
    if expr is None:
        return []
    sv = _sym(func)
    if not sv.cfg.has(expr):
        return [ast.unparse(expr)]
    return sv.texts(expr)


def _exprs(func: ast.AST, expr: ast.AST | None) -> list[ast.AST]:
    return [ast.parse(t, mode="eval").body for t in _texts(func, expr)]


def _texts_at(func: ast.AST, at: ast.AST, spec: str) -> list[str]:
    """The alternatives of the expression written ``spec`` if it were evaluated where ``at`` is."""
    sv = _sym(func)
    e = ast.parse(spec, mode="eval").body
    if not sv.cfg.has(at):
        return [ast.unparse(e)]
    return sorted(sv._ev(e, sv.fw.at(at)))


def _same_object(func: ast.AST, a: ast.AST, b: ast.AST) -> bool:
    """``a`` and ``b`` denote the same object: same text, or same text once the locals are unfolded."""
    return norm_stmt(a) == norm_stmt(b) or bool(set(_texts(func, a)) & set(_texts(func, b)))


def _is_zero(e: ast.AST | None) -> bool:
    return e is None or (isinstance(e, ast.Constant) and e.value == 0 and not isinstance(e.value, bool))


def _index_mapping(e: ast.AST) -> tuple[ast.AST, ast.AST | None, ast.AST | None] | None:
    """(sequence, start, stop) when ``e`` maps the items of a sequence to their positions counted from ``start``:

    ``dict(zip(S, range(n)))``, ``dict(zip(S, [list(]range(a, b)[)]))``, ``dict(zip(S, count(a)))``,
    ``{x: i for i, x in enumerate(S[, a])}``.  ``start`` None means 0, ``stop`` None means unbounded.
    """

    def positions(r: ast.AST):
        if isinstance(r, ast.Call) and dotted(r.func) in ("list", "tuple") and len(r.args) == 1 and not r.keywords:
            r = r.args[0]
        if isinstance(r, ast.Call) and dotted(r.func) == "range" and not r.keywords:
            if len(r.args) == 1:
                return None, r.args[0]
            if len(r.args) == 2:
                return r.args[0], r.args[1]
        if isinstance(r, ast.Call) and dotted(r.func) in ("count", "itertools.count") and len(r.args) <= 1 and not r.keywords:
            return (r.args[0] if r.args else None), None
        return False

    if isinstance(e, ast.Call) and dotted(e.func) == "dict" and len(e.args) == 1 and not e.keywords:
        z = e.args[0]
        if isinstance(z, ast.Call) and dotted(z.func) == "zip" and len(z.args) == 2 and not z.keywords:
            r = positions(z.args[1])
            if r is not False:
                return z.args[0], r[0], r[1]
        return None
    if isinstance(e, ast.DictComp) and len(e.generators) == 1 and not e.generators[0].ifs:
        g = e.generators[0]
        en, t = g.iter, g.target
        if isinstance(en, ast.Call) and dotted(en.func) == "enumerate" and en.args and isinstance(t, ast.Tuple) and len(t.elts) == 2 and all(isinstance(x, ast.Name) for x in t.elts):
            if dotted(e.key) == t.elts[1].id and dotted(e.value) == t.elts[0].id and t.elts[0].id != t.elts[1].id:
                return en.args[0], arg_or_kw(en, 1, "start"), None
    return None


def _plain_sorted(e: ast.AST) -> ast.AST | None:
    """The collection ``c`` when ``e`` is ``sorted(c)`` / ``sorted(c.keys())`` in the default order."""
    if isinstance(e, ast.Call) and dotted(e.func) == "sorted" and len(e.args) == 1 and not e.keywords:
        c = e.args[0]
        if isinstance(c, ast.Call) and isinstance(c.func, ast.Attribute) and c.func.attr == "keys" and not c.args and not c.keywords:
            c = c.func.value
        return c
    return None


_LENGTH_PRESERVING = ("array", "asarray", "list", "tuple", "__to_real", "_HDFDatabase__to_real")


def _length_of(e: ast.AST) -> ast.AST | None:
    """``x`` when ``e`` is the number of items of ``x``: ``len(x)`` or ``x.shape[0]``."""
    if isinstance(e, ast.Call) and dotted(e.func) == "len" and len(e.args) == 1 and not e.keywords:
        return e.args[0]
    if isinstance(e, ast.Subscript) and isinstance(e.value, ast.Attribute) and e.value.attr == "shape" and const_value(e.slice) == 0 and isinstance(e.slice, ast.Constant):
        return e.value.value
    return None


def _feeding_stmts(func: ast.AST, cfg, expr: ast.AST, at: ast.stmt) -> list[tuple[ast.stmt, ast.AST]]:
    """(statement, expression evaluated there) for ``expr`` at statement ``at`` and for the assignments to locals
    that may flow into it."""
    out, seen, work = [(at, expr)], set(), sorted(names_in(expr))
    while work:
        n = work.pop()
        if n in seen:
            continue
        seen.add(n)
        for s in stmts_of(func):
            if s is not at and isinstance(s, ast.Assign) and any(dotted(t) == n for t in s.targets) and cfg.reachable(cfg.node_of(s), cfg.node_of(at)):
                out.append((s, s.value))
                work += sorted(names_in(s.value))
    return out


_UNROLLED: dict = {}


def _unrolled(func: ast.AST) -> ast.AST:
    """``func`` itself, or a copy of it in which a repetition over a LITERAL tuple of plain expressions is written out:

    ``a, b = (f(x) for x in (p, q))``          ->  ``a = f(p); b = f(q)``
    ``for n, d in ((N1, D1), (N2, D2)): g(n, d)``  ->  ``g(N1, D1); g(N2, D2)``

    Only when this is the same computation: the items are names / attribute chains / constants, the loop has no
    break/continue/else and does not re-bind its own variables, which are not read after it; the targets of the
    unpacking are plain names that the unpacked expressions do not read.
    """
    if id(func) in _UNROLLED:
        return _UNROLLED[id(func)][1]
    import copy

    def plain(e: ast.AST) -> bool:
        if isinstance(e, (ast.Tuple, ast.List)):
            return all(plain(x) for x in e.elts)
        while isinstance(e, ast.Attribute):
            e = e.value
        return isinstance(e, (ast.Name, ast.Constant))

    def bind(target: ast.AST, item: ast.AST) -> dict[str, ast.AST] | None:
        if isinstance(target, ast.Name):
            return {target.id: item}
        if isinstance(target, (ast.Tuple, ast.List)) and isinstance(item, (ast.Tuple, ast.List)) and len(target.elts) == len(item.elts):
            out: dict[str, ast.AST] = {}
            for t, i in zip(target.elts, item.elts):
                b = bind(t, i)
                if b is None or set(b) & set(out):
                    return None
                out.update(b)
            return out
        return None

    class Subst(ast.NodeTransformer):
        def __init__(self, mapping):
            self.mapping = mapping

        def visit_Name(self, node):  # noqa: N802
            if isinstance(node.ctx, ast.Load) and node.id in self.mapping:
                return ast.copy_location(copy.deepcopy(self.mapping[node.id]), node)
            return node

        def visit_Call(self, node):  # noqa: N802
            bound = getattr(node, "_gv_bind", None)  # parameter -> argument node (gv.canon): keep it on the new arguments
            where = {}
            if bound:
                where = {id(a): (0, i) for i, a in enumerate(node.args)}
                where.update({id(k.value): (1, i) for i, k in enumerate(node.keywords)})
            self.generic_visit(node)
            if bound:
                now = (node.args, [k.value for k in node.keywords])
                node._gv_bind = {p: (now[where[id(a)][0]][where[id(a)][1]] if id(a) in where else a) for p, a in bound.items()}
            return node

    def subst(node: ast.AST, mapping: dict[str, ast.AST]) -> ast.AST:
        new = Subst(mapping).visit(copy.deepcopy(node))
        ast.fix_missing_locations(new)
        return new

    changed = []

    def loads(node: ast.AST, names: set[str]) -> int:
        return sum(1 for n in ast.walk(node) if isinstance(n, ast.Name) and isinstance(n.ctx, ast.Load) and n.id in names)

    def rewrite(stmts: list[ast.stmt], root: ast.AST) -> list[ast.stmt]:
        out: list[ast.stmt] = []
        for s in stmts:
            if isinstance(s, (ast.FunctionDef, ast.AsyncFunctionDef, ast.ClassDef)):
                out.append(s)
                continue
            if isinstance(s, ast.Assign) and len(s.targets) == 1 and isinstance(s.targets[0], (ast.Tuple, ast.List)) and all(isinstance(t, ast.Name) for t in s.targets[0].elts) and isinstance(s.value, (ast.GeneratorExp, ast.ListComp)) and len(s.value.generators) == 1:
                g = s.value.generators[0]
                tg = s.targets[0].elts
                if not g.ifs and not g.is_async and isinstance(g.iter, (ast.Tuple, ast.List)) and len(g.iter.elts) == len(tg) and plain(g.iter) and not ({t.id for t in tg} & names_in(s.value)):
                    maps = [bind(g.target, item) for item in g.iter.elts]
                    if all(m is not None for m in maps):
                        for t, m in zip(tg, maps):
                            out.append(ast.copy_location(ast.Assign(targets=[ast.Name(id=t.id, ctx=ast.Store())], value=subst(s.value.elt, m), lineno=s.lineno), s))
                            ast.fix_missing_locations(out[-1])
                        changed.append(s)
                        continue
            if isinstance(s, ast.For) and not s.orelse and isinstance(s.iter, (ast.Tuple, ast.List)) and s.iter.elts and plain(s.iter):
                maps = [bind(s.target, item) for item in s.iter.elts]
                own = names_in(s.target)
                body_nodes = [n for b in s.body for n in ast.walk(b)]
                quiet = not any(isinstance(n, (ast.Break, ast.Continue)) for n in body_nodes) and not any(isinstance(n, ast.Name) and isinstance(n.ctx, (ast.Store, ast.Del)) and n.id in own for n in body_nodes)
                if all(m is not None for m in maps) and quiet and loads(root, own) == sum(loads(b, own) for b in s.body):
                    for m in maps:
                        out += rewrite([subst(b, m) for b in s.body], root)
                    changed.append(s)
                    continue
            for fld in ("body", "orelse", "finalbody"):
                if isinstance(getattr(s, fld, None), list) and getattr(s, fld) and isinstance(getattr(s, fld)[0], ast.stmt):
                    setattr(s, fld, rewrite(getattr(s, fld), root))
            for h in getattr(s, "handlers", []) or []:
                h.body = rewrite(h.body, root)
            out.append(s)
        return out

    new = copy.deepcopy(func)
    new.body = rewrite(new.body, new)
    if not changed:
        new = func
    _UNROLLED[id(func)] = (func, new)
    _UNROLLED[id(new)] = (new, new)
    return new


def _dataset_writes(func: ast.AST) -> list[tuple[ast.AST, ast.AST, ast.AST | None]]:
    """(node, name, data) of the datasets a function creates in an HDF5 group: ``g.create_dataset(name, data=d)``
    and the item assignment ``g[name] = d`` (h5py creates the dataset ``name`` holding ``d``)."""
    out = []
    for n in walk_body(func):
        if isinstance(n, ast.Call) and last_attr(n) == "create_dataset" and isinstance(n.func, ast.Attribute) and arg_or_kw(n, 0, "name") is not None:
            out.append((n, arg_or_kw(n, 0, "name"), kwarg(n, "data")))
        elif isinstance(n, ast.Assign) and len(n.targets) == 1 and isinstance(n.targets[0], ast.Subscript) and not isinstance(n.targets[0].slice, (ast.Slice, ast.Tuple)):
            out.append((n, n.targets[0].slice, n.value))
    return out


def _csr_conversion(c: ast.AST) -> bool:
    """``c`` yields its operand in CSR format: ``x.tocsr()``, ``x.asformat("csr")``, ``csr_array(x)`` / ``csr_matrix(x)``."""
    if not isinstance(c, ast.Call):
        return False
    if isinstance(c.func, ast.Attribute) and c.func.attr == "tocsr":
        return True
    if isinstance(c.func, ast.Attribute) and c.func.attr == "asformat":
        return const_value(arg_or_kw(c, 0, "format")) == "csr"
    return last_attr(c) in ("csr_array", "csr_matrix") and len(c.args) == 1 and not isinstance(c.args[0], ast.Tuple)


def check_database_tables(ctx: Ctx) -> None:
    w = ctx.index.method(HD, "HDFDatabase", "to_file")
    r = ctx.index.method(HD, "HDFDatabase", "update_from_file")
    wt = _str_consts_of_calls(w, ("require_group", "create_group"))
    rt = _str_consts_of_calls(r, ("require_group",))
    roles = ("design_vars_grp", "keys_group", "values_group")
    ok = all(k in wt and k in rt for k in roles)
    ctx.need(ok, f"HDFDatabase: the three groups were not recognised in writer {wt} / reader {rt}")
    for k in roles:
        ctx.ob("11.1-db-groups", cname(HD, "HDFDatabase", "update_from_file"), wt[k] == rt[k], f"the reader opens group '{rt[k]}' for {k} while the writer creates '{wt[k]}'", node=r, stmt=f"{k}: writer '{wt[k]}' = reader")
    ctx.ob("11.1-db-groups", cname(HD, "HDFDatabase", "to_file"), len(set(wt[k] for k in roles)) == 3, "the three groups must have distinct names", node=w, stmt="distinct group names")
    # vector sub-group prefix
    def fprefix(func):
        out = []
        for n in walk_body(func):
            if isinstance(n, ast.JoinedStr) and n.values and isinstance(n.values[0], ast.Constant):
                out.append(n.values[0].value)
        return out

    vw = ctx.index.method(HD, "HDFDatabase", "__add_hdf_vector_output")
    pw, pr = fprefix(vw), [p for p in fprefix(r)]
    pw = [p for p in pw if not p.startswith("Dataset")]
    ctx.ob("11.1-db-subgroup", cname(HD, "HDFDatabase", "update_from_file"), len(pw) >= 1 and pw[0] in pr, f"vector outputs are written in sub-groups named '{pw[:1]}<index>' but read from '{pr}<index>'", node=r, stmt="vector sub-group prefix")
    # index-as-name: writer names datasets str(index), reader looks them up by str(range index)
    idx = [s for s in stmts_of(r) if isinstance(s, ast.For) and isinstance(s.iter, ast.Call) and dotted(s.iter.func) == "range"]
    ok = len(idx) == 1 and norm_stmt(idx[0].iter.args[0]) == "len(design_vars_grp)"
    ctx.ob("11.1-db-index", cname(HD, "HDFDatabase", "update_from_file"), ok, "entries must be read back for indices 0..len(x)-1, in this order (the order of the points)", node=(idx or [r])[0])
    if ok:
        iv = dotted(idx[0].target)
        sv = [s for s in ast.walk(idx[0]) if isinstance(s, ast.Assign) and norm_stmt(s.value) == f"str({iv})"]
        stores = [c for c in ast.walk(idx[0]) if isinstance(c, ast.Call) and last_attr(c) == "store"]
        ok2 = len(sv) == 1 and len(stores) == 1 and dotted(sv[0].targets[0]) in names_in(stores[0].args[0]) and "design_vars_grp" in names_in(stores[0].args[0])
        ctx.ob("11.1-db-index", cname(HD, "HDFDatabase", "update_from_file"), ok2, "each point is read from x/<index> and stored with the outputs of the same index", node=(stores or idx)[0])
        # vectors: name = keys[int(k)], scalars zipped with the remaining keys in order
        comp = [n for n in ast.walk(idx[0]) if isinstance(n, ast.DictComp)]
        ok3 = any(isinstance(c.key, ast.Subscript) and dotted(c.key.value) == "keys" and "int(" in unparse(c.key.slice) for c in comp)
        ctx.ob("11.1-db-vectors", cname(HD, "HDFDatabase", "update_from_file"), ok3, "a vector output stored as arr_<i>/<j> belongs to the j-th name of entry i", node=(comp or idx)[0])
        zips = [c for c in ast.walk(idx[0]) if isinstance(c, ast.Call) and dotted(c.func) == "zip"]
        ok4 = len(zips) == 1 and len(zips[0].args) == 2
        if ok4:
            # the filtered name list: a generator or a list, written in place or through a local
            first = zips[0].args[0]
            alts = [first] if isinstance(first, (ast.GeneratorExp, ast.ListComp)) else _exprs(r, first)
            name_list = {"keys", *_texts_at(r, zips[0], "keys")}
            ok4 = bool(alts) and all(isinstance(a, (ast.GeneratorExp, ast.ListComp)) and len(a.generators) == 1 and unparse(a.generators[0].iter) in name_list and len(a.generators[0].ifs) == 1 and dotted(a.elt) == dotted(a.generators[0].target) for a in alts)
        ctx.ob("11.1-db-scalars", cname(HD, "HDFDatabase", "update_from_file"), ok4, "scalar outputs are the names that are not vectors, in the order of the name list, zipped with the scalar dataset", node=(zips or idx)[0])
    # writer side of the same convention
    aw = ctx.index.method(HD, "HDFDatabase", "__add_hdf_output_dataset")
    con = cname(HD, "HDFDatabase", "__add_hdf_output_dataset")
    params = [a.arg for a in aw.args.args]
    ctx.need(len(params) == 6, "__add_hdf_output_dataset: (self, index, keys group, values group, outputs, name->index) expected")
    outs_p, map_p = params[4], params[5]
    names_call = rules.self_calls(aw, "__add_hdf_name_output", "HDFDatabase")
    loops = [s for s in stmts_of(aw) if isinstance(s, ast.For)]
    # the names written and the names iterated are the same sorted list (through a local or not)
    written = _texts(aw, arg_or_kw(names_call[0], 2, "keys")) if len(names_call) == 1 else []
    iterated = _texts(aw, loops[0].iter) if len(loops) == 1 else []
    srt_ok = len(written) == 1 and written == iterated and dotted(_plain_sorted(ast.parse(written[0], mode="eval").body)) == outs_p
    ctx.ob("11.1-db-scalars", con, srt_ok, "names are written, and scalar values collected, in the same (sorted) order", node=(names_call or [aw])[0])
    vec = rules.self_calls(aw, "__add_hdf_vector_output", "HDFDatabase")
    ok = len(vec) == 1 and len(loops) == 1 and isinstance(loops[0].target, ast.Name)
    if ok:
        got = arg_or_kw(vec[0], 1, "idx_sub_group")
        ok = got is not None and _texts(aw, got) == _texts_at(aw, got, f"{map_p}[{loops[0].target.id}]") and any(sub is vec[0] for sub in ast.walk(loops[0]))
    ctx.ob("11.1-db-vectors", con, ok, "a vector output must be stored under the index of its own name", node=(vec or [aw])[0])
    dflt = [s for s in stmts_of(aw) if isinstance(s, ast.Assign) and dotted(s.targets[0]) == map_p]
    ok = len(dflt) == 1 and srt_ok
    if ok:
        alts = [_index_mapping(e) for e in _exprs(aw, dflt[0].value)]
        ok = len(alts) == 1 and alts[0] is not None
        if ok:
            seq, start, stop = alts[0]
            ok = unparse(seq) == written[0] and _is_zero(start) and (stop is None or unparse(stop) in (f"len({outs_p})", f"len({written[0]})"))
    ctx.ob("11.1-db-vectors", con, ok, "by default the index of a name is its position in the sorted name list that is written", node=(dflt or [aw])[0])


def check_append(ctx: Ctx) -> None:
    for m, what in (("__add_hdf_name_output", "keys"), ("__add_hdf_scalar_output", "values")):
        f = ctx.index.method(HD, "HDFDatabase", m)
        con = cname(HD, "HDFDatabase", m)
        cfg = cfg_of(f)
        rz = [c for c in walk_body(f) if isinstance(c, ast.Call) and last_attr(c) == "resize" and isinstance(c.func, ast.Attribute)]
        st = [s for s in stmts_of(f) if isinstance(s, ast.Assign) and isinstance(s.targets[0], ast.Subscript) and isinstance(s.targets[0].slice, ast.Slice)]
        ctx.need(len(rz) == 1 and len(rz[0].args) == 1 and len(st) == 1, f"{m}: resize / slice store not found")
        rz_stmt = rules.enclosing_stmt(f, rz[0])
        ds = rz[0].func.value  # the dataset being extended
        sl = st[0].targets[0].slice
        new = f.args.args[-1].arg

        def is_ds(e: ast.AST) -> bool:
            return _same_object(f, e, ds)

        def old_length(e: ast.AST | None) -> bool:
            """``e`` (already unfolded) is the number of items of the dataset."""
            x = _length_of(e) if e is not None else None
            return x is not None and (norm_stmt(x) == norm_stmt(ds) or unparse(x) in _texts(f, ds))

        def new_length(e: ast.AST | None) -> bool:
            """``e`` (already unfolded) is the number of appended items."""
            x = _length_of(e) if e is not None else None
            while isinstance(x, ast.Call) and (last_attr(x) or "") in _LENGTH_PRESERVING and x.args:
                x = x.args[0]
            return dotted(x) == new

        def total(e: ast.AST | None) -> bool:
            return isinstance(e, ast.BinOp) and isinstance(e.op, ast.Add) and ((old_length(e.left) and new_length(e.right)) or (old_length(e.right) and new_length(e.left)))

        lows = _exprs(f, sl.lower)
        ok = bool(lows) and all(old_length(e) for e in lows)
        ctx.ob("11.2-offset", con, ok, "the append offset must be the current length of the dataset being extended", node=sl.lower or st[0])
        arg = rz[0].args[0]
        sizes = [e.elts[0] if isinstance(e, ast.Tuple) and len(e.elts) == 1 else e for e in _exprs(f, arg)]
        ok = bool(sizes) and all(total(e) for e in sizes)
        ctx.ob("11.2-resize", con, ok, f"the dataset must grow by exactly the number of appended {what}: resize((offset + len({new}),))", node=rz[0])
        ok = bool(lows) and all(old_length(e) for e in lows) and (sl.upper is None or all(total(e) for e in _exprs(f, sl.upper))) and sl.step is None
        ok = ok and is_ds(st[0].targets[0].value) and any(new in names_in(v) for v in _exprs(f, st[0].value))
        ctx.ob("11.2-tail", con, ok, "the new items must be written at [offset:] of the same dataset", node=st[0])
        # the length that gives the offset is read before the resize: no statement that reads it for the slice runs after
        reads = []
        for bound in (sl.lower, sl.upper):
            if bound is not None:
                reads += [(s_, e_) for s_, e_ in _feeding_stmts(f, cfg, bound, st[0]) if any(_length_of(x) is not None and is_ds(_length_of(x)) for x in ast.walk(e_))]
        ok = bool(reads) and all(s_ is not st[0] and cfg.reachable(cfg.node_of(s_), cfg.node_of(rz_stmt)) and (s_ is rz_stmt or not cfg.reachable(cfg.node_of(rz_stmt), cfg.node_of(s_))) for s_, _ in reads) and cfg.reachable(cfg.node_of(rz_stmt), cfg.node_of(st[0]))
        ctx.ob("11.2-offset", con, ok, "the offset must be read before the dataset is resized", node=(reads or [(st[0], None)])[0][0], stmt="offset read before resize")
        conds = [(t, v) for t, v in branch_conditions(cfg, cfg.node_of(st[0])) if cfg.kind[t] == "test"]
        ok = len(conds) == 1
        if ok:
            tst = cfg.ast[conds[0][0]].test
            neg = isinstance(tst, ast.UnaryOp) and isinstance(tst.op, ast.Not)
            cmp_ = tst.operand if neg else tst
            # the extension happens on the branch where the dataset name IS in the group
            ok = isinstance(cmp_, ast.Compare) and len(cmp_.ops) == 1 and isinstance(cmp_.ops[0], (ast.In, ast.NotIn)) and (isinstance(cmp_.ops[0], ast.In) != neg) == conds[0][1]
        ctx.ob("11.2-create-or-append", con, ok, "a dataset is created when absent and extended otherwise", node=st[0], stmt="append iff the dataset exists")
    g = ctx.index.method(HD, "HDFDatabase", "__get_missing_hdf_output_dataset")
    con = cname(HD, "HDFDatabase", "__get_missing_hdf_output_dataset")
    gp = [a_.arg for a_ in g.args.args]
    ctx.need(len(gp) == 3, "__get_missing_hdf_output_dataset: (index, keys group, outputs) expected")
    rets = [s for s in stmts_of(g) if isinstance(s, ast.Return) and isinstance(s.value, ast.Tuple) and len(s.value.elts) == 2 and not all(isinstance(e, ast.Dict) and not e.keys for e in s.value.elts)]
    ctx.need(len(rets) == 1, "__get_missing_hdf_output_dataset: the return of (missing outputs, their indices) not found")
    miss_alts = _exprs(g, rets[0].value.elts[0])
    map_alts = _exprs(g, rets[0].value.elts[1])
    miss = miss_alts[0] if len(miss_alts) == 1 else None
    # missing outputs: {name: value for name, value in outputs.items() if name not in existing}
    existing = None
    ok = isinstance(miss, ast.DictComp) and len(miss.generators) == 1 and len(miss.generators[0].ifs) == 1
    if ok:
        gen = miss.generators[0]
        cp = compare_parts(gen.ifs[0])
        ok = norm_stmt(gen.iter) == f"{gp[2]}.items()" and isinstance(gen.target, ast.Tuple) and len(gen.target.elts) == 2 and dotted(miss.key) == dotted(gen.target.elts[0]) and dotted(miss.value) == dotted(gen.target.elts[1])
        ok = ok and cp is not None and cp[1] is ast.NotIn and dotted(cp[0]) == dotted(miss.key)
        if ok:
            existing = cp[2]
    ctx.ob("11.2-missing-ids", con, bool(ok), "missing outputs are exactly those whose name is not yet in the file", node=rets[0], stmt="missing = outputs whose name is not in the existing names")
    ok = existing is not None and any(isinstance(n_, ast.Subscript) and dotted(n_.value) == gp[1] and norm_stmt(n_.slice) == f"str({gp[0]})" for n_ in ast.walk(existing))
    ctx.ob("11.2-missing-ids", con, ok, "existing names must be read from the entry's own name dataset", node=rets[0], stmt="existing names = keys_group[str(index)]")
    mp = _index_mapping(map_alts[0]) if len(map_alts) == 1 else None
    ok = mp is not None and existing is not None
    if ok:
        seq, start, stop = mp
        n_exist = f"len({unparse(existing)})"
        n_miss = f"len({unparse(miss)})"
        ok = start is not None and unparse(start) == n_exist and (stop is None or unparse(stop) in (f"len({gp[2]})", f"{n_exist} + {n_miss}", f"{n_miss} + {n_exist}"))
    ctx.ob("11.2-missing-ids", con, bool(ok), "the indices of the missing outputs must follow the existing names: range(len(existing), len(all))", node=rets[0], stmt="indices of the missing names start at len(existing)")
    ok = mp is not None and miss is not None and _plain_sorted(mp[0]) is not None and unparse(_plain_sorted(mp[0])) == unparse(miss)
    ctx.ob("11.2-missing-ids", con, bool(ok), "missing names must be numbered in sorted order: the order in which __add_hdf_output_dataset appends them to the name list", node=rets[0], stmt="missing names numbered in sorted order")
    a = ctx.index.method(HD, "HDFDatabase", "__append_hdf_output")
    call = rules.self_calls(a, "__add_hdf_output_dataset", "HDFDatabase")
    unp = [s for s in stmts_of(a) if isinstance(s, ast.Assign) and isinstance(s.targets[0], ast.Tuple)]
    ok = len(call) == 1 and len(unp) == 1 and dotted(call[0].args[3]) == dotted(unp[0].targets[0].elts[0]) and dotted(kwarg(call[0], "output_name_to_idx")) == dotted(unp[0].targets[0].elts[1])
    ctx.ob("11.2-missing-ids", cname(HD, "HDFDatabase", "__append_hdf_output"), ok, "only the missing outputs are appended, with their precomputed indices", node=(call or [a])[0])


def check_pending(ctx: Ctx) -> None:
    store_protocol(ctx, "11.3", {"pending"})
    f = ctx.index.method(HD, "HDFDatabase", "to_file")
    con = cname(HD, "HDFDatabase", "to_file")
    cfg = cfg_of(f)
    db = f.args.args[1].arg  # the database being exported
    withs = [s for s in stmts_of(f) if isinstance(s, ast.With)]

    def is_pending(e: ast.AST) -> bool:
        return "__pending_arrays" in (dotted(e) or "")

    # the pending points are forgotten by ``.clear()`` or by re-binding the attribute
    clr = [s for s in stmts_of(f) if (isinstance(s, ast.Expr) and isinstance(s.value, ast.Call) and isinstance(s.value.func, ast.Attribute) and s.value.func.attr == "clear" and is_pending(s.value.func.value)) or (isinstance(s, (ast.Assign, ast.AnnAssign, ast.Delete)) and any(is_pending(t) for t in (s.targets if not isinstance(s, ast.AnnAssign) else [s.target])))]
    clr += [rules.enclosing_stmt(f, c) for c in walk_body(f) if isinstance(c, ast.Call) and last_attr(c) == "clear" and isinstance(c.func, ast.Attribute) and is_pending(c.func.value) and not any(rules.enclosing_stmt(f, c) is s for s in clr)]
    ok = len(withs) == 1 and len(clr) == 1 and not any(sub is clr[0] for sub in ast.walk(withs[0])) and cfg.reachable(cfg.node_of(withs[0]), cfg.node_of(clr[0]))
    ctx.ob("11.3-clear-after-close", con, ok, "pending points may be forgotten only after the file has been written and closed (an exception during the export must leave them pending)", node=(clr or [f])[0])
    loops = [s for s in stmts_of(f) if isinstance(s, ast.For) and "__pending_arrays" in unparse(s.iter)]
    ok = len(loops) == 1
    ctx.ob("11.3-append-pending", con, ok, "append mode must export exactly the pending points", node=(loops or [f])[0])
    if ok:
        lp = loops[0]
        point = dotted(lp.target)
        app = [c for c in ast.walk(lp) if isinstance(c, ast.Call) and last_attr(c).endswith("__append_hdf_output")]
        cre = [c for c in ast.walk(lp) if isinstance(c, ast.Call) and last_attr(c).endswith("__create_hdf_input_output")]
        ok = len(app) == 1 and len(cre) == 1 and len(app[0].args) == 4 and len(cre[0].args) == 6
        if ok:
            ca = [(cfg.ast[t].test, v) for t, v in branch_conditions(cfg, cfg.node_of(app[0])) if cfg.kind[t] == "test" and any(sub is cfg.ast[t] for sub in ast.walk(lp))]
            cc = [(cfg.ast[t].test, v) for t, v in branch_conditions(cfg, cfg.node_of(cre[0])) if cfg.kind[t] == "test" and any(sub is cfg.ast[t] for sub in ast.walk(lp))]

            def present(test: ast.AST, call: ast.Call) -> bool | None:
                """Polarity of ``str(<index of the call>) in <group of the design variables>`` (None: another test)."""
                cp = compare_parts(test)
                if cp is None or cp[1] not in (ast.In, ast.NotIn):
                    return None
                left, right = set(_texts(f, cp[0])), set(_texts(f, cp[2]))
                if left & {f"str({i})" for i in _texts(f, call.args[0])} and right & set(_texts(f, cre[0].args[1])):
                    return cp[1] is ast.In
                return None

            ok = len(ca) == 1 and len(cc) == 1 and present(ca[0][0], app[0]) is not None and present(cc[0][0], cre[0]) is not None
            ok = ok and present(ca[0][0], app[0]) == ca[0][1] and present(cc[0][0], cre[0]) != cc[0][1]
        ctx.ob("11.3-append-pending", con, ok, "a pending point already in the file gets its missing outputs appended; a new one gets a new entry", node=(app or [lp])[0], stmt="create-or-append by presence of the index")
        calls = app + cre

        def position_in_db(e: ast.AST) -> bool:
            """``e`` (unfolded) is <positions of the points of the database>[<the pending point>]."""
            if not (isinstance(e, ast.Subscript) and dotted(e.slice) == point):
                return False
            mp = _index_mapping(e.value)
            if mp is None:
                return False
            seq = mp[0]
            if isinstance(seq, ast.Call) and dotted(seq.func) in ("list", "tuple") and len(seq.args) == 1 and not seq.keywords:
                seq = seq.args[0]
            return unparse(seq) in (db, f"{db}.keys()") and _is_zero(mp[1]) and (mp[2] is None or unparse(mp[2]) == f"len({db})")

        ok = bool(calls) and point is not None and all(c.args and _exprs(f, c.args[0]) and all(position_in_db(e) for e in _exprs(f, c.args[0])) for c in calls)
        ctx.ob("11.3-append-pending", con, ok, "the entry index of a point is its position in the database", node=(calls or [lp])[0], stmt="index = position in the database")
        ok = bool(calls) and point is not None and all(c.args and _texts(f, c.args[-1]) == [f"{db}[{point}]"] for c in calls)
        ctx.ob("11.3-append-pending", con, ok, "the outputs exported for a pending point are its current outputs in the database", node=(calls or [lp])[0], stmt="outputs of the same point")

    def all_items(e: ast.AST) -> tuple[bool, bool]:
        """(iterates the items of the database, through enumerate from 0)."""
        if isinstance(e, ast.Call) and dotted(e.func) == "enumerate" and e.args and _is_zero(arg_or_kw(e, 1, "start")):
            return norm_stmt(e.args[0]) == f"{db}.items()", True
        return norm_stmt(e) == f"{db}.items()", False

    full = [s for s in stmts_of(f) if isinstance(s, ast.For) and all_items(s.iter)[0]]
    ok = len(full) == 1
    if ok:
        fl = full[0]
        cre = [c for c in ast.walk(fl) if isinstance(c, ast.Call) and last_attr(c).endswith("__create_hdf_input_output")]
        ok = len(cre) == 1 and bool(cre[0].args) and isinstance(cre[0].args[0], ast.Name)
        if ok:
            counter = cre[0].args[0].id
            if all_items(fl.iter)[1]:
                # for index, (point, outputs) in enumerate(database.items())
                ok = isinstance(fl.target, ast.Tuple) and len(fl.target.elts) == 2 and dotted(fl.target.elts[0]) == counter and not any(isinstance(x, (ast.Assign, ast.AugAssign)) and counter in {dotted(t) for t in (x.targets if isinstance(x, ast.Assign) else [x.target])} for x in ast.walk(fl))
            else:
                ups = [x for x in ast.walk(fl) if isinstance(x, (ast.Assign, ast.AugAssign)) and counter in {dotted(t) for t in (x.targets if isinstance(x, ast.Assign) else [x.target])}]
                inc = [as_update(x) for x in ups]
                ok = len(ups) == 1 and inc[0] is not None and isinstance(inc[0][1], ast.Add) and const_value(inc[0][2]) == 1 and ups[0] in fl.body
                ok = ok and cfg.reachable(cfg.node_of(rules.enclosing_stmt(f, cre[0])), cfg.node_of(ups[0]))
                init = [s for s in stmts_of(f) if isinstance(s, ast.Assign) and counter in {dotted(t) for t in s.targets} and not any(sub is s for sub in ast.walk(fl)) and cfg.reachable(cfg.node_of(s), cfg.node_of(fl))]
                ok = ok and bool(init) and all(_is_zero(s.value) and s.value is not None for s in init)
    ctx.ob("11.3-full-export", con, bool(ok), "a full export writes every item of the database with consecutive indices", node=(full or [f])[0])
    # pending buffer keyed by hash, compared by content
    p = ctx.index.method(HD, "HDFDatabase", "add_pending_array")
    st = [s for s in stmts_of(p) if isinstance(s, ast.Assign) and isinstance(s.targets[0], ast.Subscript)]
    ok = len(st) == 1 and dotted(st[0].value) == p.args.args[1].arg
    ctx.ob("11.3-pending-buffer", cname(HD, "HDFDatabase", "add_pending_array"), ok, "the pending buffer must keep the stored point itself", node=(st or [p])[0])


def check_design_space_tables(ctx: Ctx) -> None:
    w = _unrolled(ctx.index.method(DS, "DesignSpace", "to_hdf"))
    r = _unrolled(ctx.index.method(DS, "DesignSpace", "from_hdf"))

    def groups(func):
        return {n.attr for n in walk_body(func) if isinstance(n, ast.Attribute) and n.attr.endswith("_GROUP")}

    gw, gr = groups(w), groups(r)
    ctx.ob("11.1-ds-groups", cname(DS, "DesignSpace", "from_hdf"), gw == gr and len(gw) >= 6, f"to_hdf writes {sorted(gw)} but from_hdf reads {sorted(gr)}: a dataset written and never read back (or read and never written) is lost at reload", node=r, stmt="same *_GROUP datasets written and read", slots={"writer_only": sorted(gw - gr), "reader_only": sorted(gr - gw)})
    cls = ctx.index.cls(DS, "DesignSpace")
    vals = {}
    for k, st in cls.class_attrs.items():
        if k.endswith("_GROUP"):
            v = getattr(st, "value", None)
            if isinstance(v, ast.Constant):
                vals[k] = v.value
    ctx.ob("11.1-ds-groups", cname(DS, "DesignSpace"), len(set(vals.values())) == len(vals), f"two *_GROUP constants share a value: {vals}", node=cls.node, stmt="distinct dataset names")
    # what is written under each name
    wr = {}
    for _c, nm, d in _dataset_writes(w):
        if isinstance(nm, ast.Attribute):
            if isinstance(d, ast.Name):
                defs = [s for s in stmts_of(w) if isinstance(s, ast.Assign) and dotted(s.targets[0]) == d.id]
                d = defs[0].value if len(defs) == 1 else d
            wr[nm.attr] = unparse(d) if d is not None else ""
    want = {"SIZE_GROUP": "variable.size", "LB_GROUP": "variable.lower_bound", "UB_GROUP": "variable.upper_bound"}
    for k, v in want.items():
        ctx.ob("11.1-ds-fields", cname(DS, "DesignSpace", "to_hdf"), wr.get(k) == v, f"{k} must hold {v}, found {wr.get(k)}", node=w, stmt=f"{k} <- {v}")
    # the current value is written variable by variable: the test that guards it is about THIS variable
    vcalls = [c for c, nm, _d in _dataset_writes(w) if norm_stmt(nm).endswith("VALUE_GROUP")]
    okv = len(vcalls) == 1
    if okv:
        from gv.cfg import cfg_of as _cfg_of

        cg = _cfg_of(w)
        lp = next((s_ for s_ in stmts_of(w) if isinstance(s_, ast.For) and vcalls[0] in list(ast.walk(s_))), None)
        okv = lp is not None
        if okv:
            lvars = {n_.id for n_ in ast.walk(lp.target) if isinstance(n_, ast.Name)}
            ldefs = {s_.targets[0].id: s_.value for s_ in ast.walk(lp) if isinstance(s_, ast.Assign) and isinstance(s_.targets[0], ast.Name)}
            tests = [cg.ast[t].test for (t, v), b in cg.branch.items() if cg.kind[t] == "test" and cg.dominates(b, cg.node_of(vcalls[0] if isinstance(vcalls[0], ast.stmt) else rules.enclosing_stmt(w, vcalls[0]))) and any(sub is cg.ast[t] for sub in ast.walk(lp))]
            def names(e, depth=0):
                out = set()
                for n_ in ast.walk(e):
                    if isinstance(n_, ast.Name):
                        out.add(n_.id)
                        if n_.id in ldefs and depth < 3:
                            out |= names(ldefs[n_.id], depth + 1)
                return out
            okv = bool(tests) and all(names(t) & lvars for t in tests)
    ctx.ob("11.1-ds-fields", cname(DS, "DesignSpace", "to_hdf"), bool(okv), "the current value of a variable is written iff THAT variable has one: a test that does not depend on the variable of the loop (e.g. 'every variable has a value') drops the values of all the variables as soon as one has none", node=(vcalls or [w])[0], stmt="current value written per variable")
    ctx.ob("11.1-ds-fields", cname(DS, "DesignSpace", "to_hdf"), "variable.type" in wr.get("VAR_TYPE_GROUP", "") and "variable_names" in wr.get("NAMES_GROUP", "") and "value" in wr.get("VALUE_GROUP", ""), "type, names and current value must be written under their own dataset names", node=w, stmt="type/names/value datasets")
    # reader feeds add_variable(name, size, type, lb, ub, value) from the matching datasets
    add = [c for c in walk_body(r) if isinstance(c, ast.Call) and last_attr(c) == "add_variable"]
    ctx.need(len(add) == 1, "from_hdf: add_variable call not found")
    src = {}
    for s in stmts_of(r):
        if isinstance(s, ast.Assign) and isinstance(s.targets[0], ast.Name):
            g = [n.attr for n in ast.walk(s.value) if isinstance(n, ast.Attribute) and n.attr.endswith("_GROUP")]
            if g:
                src[s.targets[0].id] = g[0]
    sig = [a.arg for a in ctx.index.method(DS, "DesignSpace", "add_variable").args.args][1:]
    ctx.need(len(sig) >= 6, "DesignSpace.add_variable(name, size, type, lower, upper, value) expected")
    bound = [arg_or_kw(add[0], i, p_) for i, p_ in enumerate(sig[:6])]

    def group_of(e: ast.AST | None) -> str | None:
        """The *_GROUP dataset an argument is read from (a local assigned from it, or the read written in place)."""
        if e is None:
            return None
        if isinstance(e, ast.Name):
            return src.get(e.id)
        g_ = [n.attr for n in ast.walk(e) if isinstance(n, ast.Attribute) and n.attr.endswith("_GROUP")]
        return g_[0] if g_ else None

    got = [group_of(a) for a in bound[1:]]
    ctx.ob("11.1-ds-fields", cname(DS, "DesignSpace", "from_hdf"), got == ["SIZE_GROUP", "VAR_TYPE_GROUP", "LB_GROUP", "UB_GROUP", "VALUE_GROUP"], f"add_variable(name, size, type, lower, upper, value) is fed from {got}", node=add[0])
    def order_source(e: ast.AST, depth: int = 0) -> ast.AST:
        """The iterable whose order ``e`` keeps: through element-wise comprehensions, list()/tuple()/map() and locals."""
        if depth > 6:
            return e
        if isinstance(e, ast.Name) and e.id not in src:
            defs = [s_.value for s_ in stmts_of(r) if isinstance(s_, ast.Assign) and any(dotted(t) == e.id for t in s_.targets)]
            return order_source(defs[0], depth + 1) if len(defs) == 1 else e
        if isinstance(e, (ast.ListComp, ast.GeneratorExp)) and len(e.generators) == 1 and not e.generators[0].ifs:
            return order_source(e.generators[0].iter, depth + 1)
        if isinstance(e, ast.Call) and dotted(e.func) in ("list", "tuple") and len(e.args) == 1 and not e.keywords:
            return order_source(e.args[0], depth + 1)
        if isinstance(e, ast.Call) and dotted(e.func) == "map" and len(e.args) == 2 and not e.keywords:
            return order_source(e.args[1], depth + 1)
        return e

    names = [s for s in stmts_of(r) if isinstance(s, ast.For) and src.get(dotted(order_source(s.iter))) == "NAMES_GROUP"]
    ctx.ob("11.1-ds-order", cname(DS, "DesignSpace", "from_hdf"), len(names) == 1, "variables must be re-created in the order of the stored name list (the variable order defines the design vector)", node=(names or [r])[0])


def check_cache_tables(ctx: Ctx) -> None:
    w = _unrolled(ctx.index.method(HS, "HDF5FileSingleton", "write_data"))
    sw = _unrolled(ctx.index.method(HS, "HDF5FileSingleton", "__write_sparse_array"))
    rd = _unrolled(ctx.index.method(HS, "HDF5FileSingleton", "read_data"))
    sr = _unrolled(ctx.index.method(HS, "HDF5FileSingleton", "__read_sparse_array"))
    rh = ctx.index.method(HS, "HDF5FileSingleton", "read_hashes")

    def sp_attrs(func):
        out = set()
        for n in walk_body(func):
            if isinstance(n, ast.Attribute) and isinstance(n.value, ast.Attribute) and n.value.attr.endswith("SparseMatricesAttribute"):
                out.add(n.attr)
            elif isinstance(n, ast.Attribute) and isinstance(n.value, ast.Name) and isinstance(n.ctx, ast.Load) and any(t.endswith("SparseMatricesAttribute") for t in _texts(func, n.value)):
                out.add(n.attr)  # attributes = self.__SparseMatricesAttribute; attributes.INDICES
        return out

    written = sp_attrs(sw)
    read = sp_attrs(sr) | sp_attrs(rd)
    ctx.ob("11.1-cache-sparse", cname(HS, "HDF5FileSingleton", "__read_sparse_array"), written == read and len(written) == 4, f"sparse attributes written {sorted(written)} vs read {sorted(read)}", node=sr, stmt="sparse attribute names agree")
    ctor = [c for c in walk_body(sr) if isinstance(c, ast.Call) and last_attr(c) in ("csr_array", "csr_matrix")]
    def attr_read(e: ast.AST | None) -> str | None:
        """``X`` when ``e`` (through locals) is ``<dataset>.attrs.get(<enum>.X)`` / ``<dataset>.attrs[<enum>.X]``."""
        alts = set()
        for v in _exprs(sr, e):
            key = None
            if isinstance(v, ast.Call) and isinstance(v.func, ast.Attribute) and v.func.attr == "get" and len(v.args) == 1 and not v.keywords:
                holder, key = v.func.value, v.args[0]
            elif isinstance(v, ast.Subscript):
                holder, key = v.value, v.slice
            if key is None or not (isinstance(holder, ast.Attribute) and holder.attr == "attrs" and dotted(holder.value) == sr.args.args[-1].arg):
                return None
            alts.add(key.attr if isinstance(key, ast.Attribute) and (dotted(key.value) or "").endswith("SparseMatricesAttribute") else None)
        return alts.pop() if len(alts) == 1 else None

    ok = len(ctor) == 1 and len(ctor[0].args) >= 1 and isinstance(ctor[0].args[0], ast.Tuple) and len(ctor[0].args[0].elts) == 3
    if ok:
        trip = ctor[0].args[0].elts
        ok = dotted(trip[0]) == sr.args.args[-1].arg and [attr_read(e) for e in trip[1:]] == ["INDICES", "INDPTR"] and attr_read(arg_or_kw(ctor[0], 1, "shape")) == "SHAPE"
    ctx.ob("11.1-cache-sparse", cname(HS, "HDF5FileSingleton", "__read_sparse_array"), ok, "a CSR array must be rebuilt as (data, indices, indptr), shape", node=(ctor or [sr])[0])
    csr = [c for c in walk_body(sw) if _csr_conversion(c)]
    ok = len(csr) == 1
    if ok:
        # ... on every path: the reader rebuilds a CSR array whatever was written, so a CSC/BSR value (which also has
        # indices/indptr, but column- or block-oriented) written as it is comes back transposed or mis-shaped
        cfg_w = cfg_of(sw)
        cn_ = cfg_w.node_of(csr[0])
        writes = [c for c, _nm, _d in _dataset_writes(sw)]
        ok = bool(writes) and all(cfg_w.dominates(cn_, cfg_w.node_of(w_)) for w_ in writes) and not [t for t, _ in branch_conditions(cfg_w, cn_) if cfg_w.kind[t] == "test"]
    ctx.ob("11.1-cache-sparse", cname(HS, "HDF5FileSingleton", "__write_sparse_array"), ok, "sparse values must be converted to CSR, unconditionally, before their data/indices/indptr are written (the reader always rebuilds a CSR array)", node=(csr or [sw])[0], stmt="tocsr() before the datasets are written")
    hw = {n.attr for n in walk_body(w) if isinstance(n, ast.Attribute) and n.attr == "HASH_TAG"}
    hr = {n.attr for n in walk_body(rh) if isinstance(n, ast.Attribute) and n.attr == "HASH_TAG"}
    ctx.ob("11.1-cache-hash", cname(HS, "HDF5FileSingleton", "read_hashes"), bool(hw) and bool(hr), "the entry hash must be written and read under the same tag (HASH_TAG)", node=rh, stmt="HASH_TAG written and read")
    # entry / group naming: root[str(index)][group]
    we = [c for c in walk_body(w) if isinstance(c, ast.Call) and last_attr(c) == "require_group"]
    names_w = [norm_stmt(c.args[0]) for c in we]
    re_ = [norm_stmt(n.slice) for n in walk_body(rd) if isinstance(n, ast.Subscript) and norm_stmt(n.slice) in ("str(index)", "group", "hdf_node_path")]
    # <group>.get(<name>) reads the same member as <group>[<name>] (None instead of KeyError when absent)
    re_ += [norm_stmt(c.args[0]) for c in walk_body(rd) if isinstance(c, ast.Call) and last_attr(c) == "get" and len(c.args) == 1 and not c.keywords and norm_stmt(c.args[0]) in ("str(index)", "group", "hdf_node_path")]
    ok = names_w == ["hdf_node_path", "str(index)", "group"] and set(re_) == {"hdf_node_path", "str(index)", "group"}
    ctx.ob("11.1-cache-layout", cname(HS, "HDF5FileSingleton", "read_data"), ok, f"entries are written at <node>/<index>/<group> ({names_w}) and must be read from the same path ({sorted(set(re_))})", node=rd, stmt="node/index/group layout")
    # strings: bytes on disk, str in memory
    def dtype_is(e: ast.AST | None, kind: str) -> bool:
        """``e`` names the NumPy bytes / str dtype: the string "bytes", the scalar type ``bytes_`` or the builtin."""
        codes = {"bytes": ("bytes", "bytes_", "S", "|S", "a"), "str": ("str", "str_", "U", "<U", ">U", "unicode")}[kind]
        return e is not None and (const_value(e) in codes or (dotted(e) or "").split(".")[-1] in (kind, kind + "_"))

    enc = [c for c in walk_body(w) if isinstance(c, ast.Call) and last_attr(c) == "astype" and dtype_is(arg_or_kw(c, 0, "dtype"), "bytes")]
    dec = [c for c in walk_body(rd) if isinstance(c, ast.Call) and last_attr(c) == "astype" and dtype_is(arg_or_kw(c, 0, "dtype"), "str")]
    ctx.ob("11.1-cache-strings", cname(HS, "HDF5FileSingleton", "read_data"), len(enc) == 1 and len(dec) == 1, "string arrays are written as bytes and must be converted back to str when read", node=(dec or [rd])[0])


class _Windows:
    """Linear values of the integer locals of a function along its paths (a small symbolic execution).

    A value is a linear form ``{term: coefficient}``: the term ``"1"`` for constants, a symbol ``@x`` for the value a
    loop-carried local has when an iteration starts, the text of any other sub-expression (with the locals it reads
    replaced by their values), or a fresh unknown ``?n`` where two paths disagree.  ``slice(a, b)`` objects are kept
    as ("slice", a, b, has_step).  Branches are followed separately and joined; a ``continue`` ends an iteration.
    """

    def __init__(self, stop_at: ast.stmt | None = None, probe=None, tables: set[str] | None = None):
        self.stop_at = stop_at
        self.tables = tables or set()  # 2-d tables: ``table[a:b]`` is kept as ("block", a, b): the rows a:b of it
        self.at_stop: dict | None = None
        self.ends: list[dict] = []
        self.probe = probe  # called with (node evaluated, environment) for every expression-bearing statement
        self.deps: dict[str, set[str]] = {"1": set()}
        self._fresh = 0

    # -- values
    def unknown(self) -> dict:
        self._fresh += 1
        t = f"?{self._fresh}"
        self.deps[t] = set()
        return {t: 1}

    @staticmethod
    def render(v) -> str:
        if isinstance(v, tuple):
            return v[0] + "(" + ", ".join(_Windows.render(x) if isinstance(x, dict) else str(x) for x in v[1:]) + ")"
        return "<" + " + ".join(f"{c}*{t}" for t, c in sorted(v.items())) + ">" if v else "<0>"

    @staticmethod
    def add(a: dict, b: dict, k: int = 1) -> dict:
        out = dict(a)
        for t, c in b.items():
            out[t] = out.get(t, 0) + k * c
        return {t: c for t, c in out.items() if c}

    def names_of(self, v: dict) -> set[str]:
        out: set[str] = set()
        for t in v:
            out |= self.deps.get(t, set())
        return out

    def opaque(self, e: ast.AST, env: dict) -> dict:
        import copy

        dep = set()

        class R(ast.NodeTransformer):
            def visit_Name(inner, node):  # noqa: N802, N805
                if isinstance(node.ctx, ast.Load) and node.id in env:
                    v = env[node.id]
                    if isinstance(v, dict):
                        dep.update(self.names_of(v))
                    return ast.Name(id=self.render(v), ctx=ast.Load())
                dep.add(node.id)
                return node

        t = ast.unparse(R().visit(copy.deepcopy(e)))
        self.deps.setdefault(t, set()).update(dep)
        return {t: 1}

    def value(self, e: ast.AST | None, env: dict):
        if e is None:
            return None
        if isinstance(e, ast.Constant) and isinstance(e.value, int) and not isinstance(e.value, bool):
            return {"1": e.value} if e.value else {}
        if isinstance(e, ast.Name):
            if e.id in env:
                return env[e.id]
            self.deps.setdefault(e.id, set()).add(e.id)
            return {e.id: 1}
        if isinstance(e, ast.UnaryOp) and isinstance(e.op, (ast.USub, ast.UAdd)):
            v = self.value(e.operand, env)
            if isinstance(v, dict):
                return self.add({}, v, -1 if isinstance(e.op, ast.USub) else 1)
        if isinstance(e, ast.BinOp) and isinstance(e.op, (ast.Add, ast.Sub)):
            a, b = self.value(e.left, env), self.value(e.right, env)
            if isinstance(a, dict) and isinstance(b, dict):
                return self.add(a, b, 1 if isinstance(e.op, ast.Add) else -1)
        if isinstance(e, ast.BinOp) and isinstance(e.op, ast.Mult):
            a, b = self.value(e.left, env), self.value(e.right, env)
            for x, y in ((a, b), (b, a)):
                if isinstance(x, dict) and isinstance(y, dict) and set(x) <= {"1"}:
                    return self.add({}, y, x.get("1", 0))
        if isinstance(e, ast.Call) and dotted(e.func) == "slice" and not e.keywords and 1 <= len(e.args) <= 3:
            lo = self.value(e.args[0], env) if len(e.args) > 1 else {}
            hi = self.value(e.args[1] if len(e.args) > 1 else e.args[0], env)
            has_step = len(e.args) == 3 and const_value(e.args[2], 0) is not None
            if isinstance(lo, dict) and isinstance(hi, dict):
                return ("slice", lo, hi, has_step)
        if isinstance(e, ast.Subscript) and isinstance(e.value, ast.Name) and e.value.id in self.tables and e.value.id not in env:
            rows = e.slice.elts[0] if isinstance(e.slice, ast.Tuple) and len(e.slice.elts) == 2 and isinstance(e.slice.elts[1], ast.Slice) and not any((e.slice.elts[1].lower, e.slice.elts[1].upper, e.slice.elts[1].step)) else e.slice
            if isinstance(rows, ast.Slice) and rows.step is None and rows.lower is not None and rows.upper is not None:
                lo, hi = self.value(rows.lower, env), self.value(rows.upper, env)
                if isinstance(lo, dict) and isinstance(hi, dict):
                    return ("block", lo, hi, False)
        return self.opaque(e, env)

    # -- statements
    @staticmethod
    def stored(node: ast.AST) -> set[str]:
        return {n.id for n in ast.walk(node) if isinstance(n, ast.Name) and isinstance(n.ctx, (ast.Store, ast.Del))}

    def join(self, a: dict | None, b: dict | None) -> dict | None:
        if a is None or b is None:
            return a if b is None else b
        out = {}
        for n in a.keys() & b.keys():  # a local bound on one path only is not a known value
            out[n] = a[n] if a[n] == b[n] else self.unknown()
        return out

    def look(self, node: ast.AST | None, env: dict) -> None:
        if node is not None and self.probe is not None:
            self.probe(node, env)

    def run(self, stmts: list[ast.stmt], env: dict | None) -> dict | None:
        """The environment after ``stmts`` (None when no path falls through)."""
        for s in stmts:
            if env is None:
                return None
            if s is self.stop_at:
                self.at_stop = dict(env)
                return None
            if isinstance(s, ast.If):
                self.look(s.test, env)
                for n in self.stored(s.test):
                    env[n] = self.unknown()
                env = self.join(self.run(s.body, dict(env)), self.run(s.orelse, dict(env)))
            elif isinstance(s, ast.With):
                for it in s.items:
                    self.look(it.context_expr, env)
                for it in s.items:
                    for n in self.stored(it):
                        env[n] = self.unknown()
                env = self.run(s.body, env)
            elif isinstance(s, (ast.For, ast.While, ast.Try, ast.AsyncFor, ast.AsyncWith)) or type(s).__name__ in ("Match", "TryStar"):
                # not followed: whatever is bound inside is unknown inside and after (the stop statement may be inside)
                inner = self.stop_at is not None and any(sub is self.stop_at for sub in ast.walk(s))
                for n in self.stored(s):
                    env[n] = self.unknown()
                if inner:
                    for fld in ("body", "orelse", "finalbody"):
                        if self.at_stop is None:
                            self.run([x for x in getattr(s, fld, []) or []], dict(env))
                    return None
                self.look(s, env)
            elif isinstance(s, ast.Continue):
                self.ends.append(env)
                return None
            elif isinstance(s, (ast.Break, ast.Return, ast.Raise)):
                self.look(s, env)
                return None
            elif isinstance(s, (ast.FunctionDef, ast.AsyncFunctionDef, ast.ClassDef)):
                env[s.name] = self.unknown()
            else:
                self.look(s, env)
                if isinstance(s, ast.Assign):
                    v = self.value(s.value, env)
                    for t in s.targets:
                        if isinstance(t, ast.Name):
                            env[t.id] = v
                        else:
                            for n in self.stored(t):
                                env[n] = self.unknown()
                elif isinstance(s, ast.AugAssign) and isinstance(s.target, ast.Name) and isinstance(s.op, (ast.Add, ast.Sub)):
                    a, b = self.value(ast.Name(id=s.target.id, ctx=ast.Load()), env), self.value(s.value, env)
                    env[s.target.id] = self.add(a, b, 1 if isinstance(s.op, ast.Add) else -1) if isinstance(a, dict) and isinstance(b, dict) else self.unknown()
                elif isinstance(s, ast.AnnAssign) and isinstance(s.target, ast.Name) and s.value is not None:
                    env[s.target.id] = self.value(s.value, env)
                else:
                    for n in self.stored(s):
                        env[n] = self.unknown()
                for w_ in ast.walk(s):  # a walrus re-binds in the middle of the statement
                    if isinstance(w_, ast.NamedExpr):
                        env[w_.target.id] = self.unknown()
        return env


def _check_csv_start(ctx: Ctx, con: str, f: ast.AST, lp: ast.For, tables: set, carried: list) -> None:
    """The row cursor starts at the row where the names start (``names = table[X:, 0]``): with a header line in the
    file that is row 1, and a cursor starting at 0 reads every variable one row too early."""
    from gv.props.shared import unfolded

    name_rows = [n for n in walk_body(f) if isinstance(n, ast.Subscript) and isinstance(n.ctx, ast.Load) and isinstance(n.value, ast.Name) and n.value.id in tables and isinstance(n.slice, ast.Tuple) and len(n.slice.elts) == 2 and isinstance(n.slice.elts[0], ast.Slice) and n.slice.elts[0].upper is None and n.slice.elts[0].step is None and const_value(n.slice.elts[1]) == 0 and not any(n is x for x in ast.walk(lp))]
    if len(name_rows) != 1:
        return  # the names are not read that way: nothing to compare with (the window rule still applies)
    start = name_rows[0].slice.elts[0].lower
    cfg = cfg_of(f)
    ln = cfg.node_of(lp)

    def fold(e, env):
        if isinstance(e, ast.Constant) and isinstance(e.value, (int, bool)):
            return int(e.value)
        if isinstance(e, ast.Name) and e.id in env:
            return env[e.id]
        if isinstance(e, ast.IfExp):
            t = fold(e.test, env)
            return None if t is None else fold(e.body if t else e.orelse, env)
        if isinstance(e, ast.UnaryOp) and isinstance(e.op, ast.Not):
            t = fold(e.operand, env)
            return None if t is None else int(not t)
        if isinstance(e, ast.Compare) and len(e.ops) == 1:
            a, b = fold(e.left, env), fold(e.comparators[0], env)
            if a is None or b is None:
                return None
            return {ast.Eq: a == b, ast.NotEq: a != b, ast.Lt: a < b, ast.LtE: a <= b, ast.Gt: a > b, ast.GtE: a >= b}.get(type(e.ops[0]), None)
        if isinstance(e, ast.BinOp) and isinstance(e.op, (ast.Add, ast.Sub)):
            a, b = fold(e.left, env), fold(e.right, env)
            if a is None or b is None:
                return None
            return a + b if isinstance(e.op, ast.Add) else a - b
        return None

    for k_ in carried:
        inits = [s_ for s_ in stmts_of(f) if isinstance(s_, ast.Assign) and len(s_.targets) == 1 and isinstance(s_.targets[0], ast.Name) and s_.targets[0].id == k_ and not any(s_ is x for x in ast.walk(lp)) and cfg.dominates(cfg.node_of(s_), ln)]
        if not inits:
            continue
        init = inits[-1]
        if start is None:
            ok = fold(init.value, {}) == 0 or all(fold(a_, {}) == 0 for a_ in (unfolded(f, init.value) or [init.value]))
            what = "0"
        else:
            what = norm_stmt(start, 60)
            a_start = unfolded(f, start) or [start]
            a_init = unfolded(f, init.value) or [init.value]
            ok = {norm_stmt(x, 200) for x in a_start} == {norm_stmt(x, 200) for x in a_init}
            if not ok and isinstance(start, ast.Name):
                # the offset takes a few constant values: the initial cursor, as a function of it, is the offset
                consts = [fold(x, {}) for x in a_start]
                ok = all(c is not None for c in consts) and all(fold(init.value, {start.id: c}) == c for c in consts)
        ctx.ob("11.1-ds-csv", con, bool(ok), f"the row cursor `{k_}` must start at the row where the names start (`{what}`): otherwise every variable is read from the rows of its neighbour (the header line shifts the table by one)", node=init, stmt=f"cursor {k_} starts at the first row of the names")


def check_csv_rows(ctx: Ctx) -> None:
    """11.1-ds-csv: the text reader of a design space reads every field of a variable from the variable's own rows:
    bounds, value and the missing-value marker alike.  Decided by following the integer locals of the loop that adds
    the variables: with ``C`` the value of the row cursor(s) when an iteration starts, every field is read from the
    rows ``C : C + n`` (the type from row ``C``), and on every path to the next iteration the cursor(s) are ``C + n``,
    ``n`` being a number computed from the variable of the loop.  The spelling is free (``k += n`` / ``k = k + n``,
    a local for the end, a ``slice`` object, a start/end pair of cursors)."""
    f = ctx.index.method("algos/design_space.py", "DesignSpace", "from_csv")
    con = cname("algos/design_space.py", "DesignSpace", "from_csv")
    loops = [s_ for s_ in stmts_of(f) if isinstance(s_, ast.For) and any(isinstance(c, ast.Call) and last_attr(c) == "add_variable" for c in ast.walk(s_))]
    ctx.need(len(loops) == 1, "from_csv: the loop that adds the variables was not found")
    lp = loops[0]
    tables = {s_.targets[0].id for s_ in stmts_of(f) if isinstance(s_, ast.Assign) and isinstance(s_.targets[0], ast.Name) and isinstance(s_.value, ast.Call) and last_attr(s_.value) == "genfromtxt"}
    ctx.need(tables, "from_csv: the tables read from the file were not found")
    # values before the loop: two locals bound to the same value start equal
    pre = _Windows(stop_at=lp)
    pre.run(list(f.body), {})
    ctx.need(pre.at_stop is not None, "from_csv: the loop that adds the variables is not reached by the straight-line analysis")
    carried = sorted(n_ for n_ in _Windows.stored(ast.Module(body=lp.body, type_ignores=[])) if isinstance(pre.at_stop.get(n_), dict))
    group = {n_: _Windows.render(pre.at_stop[n_]) for n_ in carried}  # local -> class of locals equal when an iteration starts
    item = names_in(lp.target)
    _check_csv_start(ctx, con, f, lp, tables, carried)
    for _ in range(len(carried) + 2):
        reads: list[tuple[ast.Subscript, object, object]] = []

        def probe(node: ast.AST, env: dict, _reads=reads) -> None:
            for sub in ast.walk(node):
                if not (isinstance(sub, ast.Subscript) and isinstance(sub.ctx, ast.Load) and isinstance(sub.value, (ast.Name, ast.Subscript))):
                    continue
                if isinstance(sub.slice, ast.Tuple) and len(sub.slice.elts) != 2:
                    continue
                rows = sub.slice.elts[0] if isinstance(sub.slice, ast.Tuple) else sub.slice
                held = env.get(sub.value.id) if isinstance(sub.value, ast.Name) else w.value(sub.value, env)
                if isinstance(sub.value, ast.Name) and sub.value.id in tables and held is None:
                    if isinstance(rows, ast.Slice):
                        _reads.append((sub, w.value(rows.lower, env), w.value(rows.upper, env) if rows.step is None else None))
                    else:
                        v = w.value(rows, env)
                        _reads.append((sub, v[1], None if v[3] else v[2]) if isinstance(v, tuple) else (sub, v, "row"))
                elif isinstance(held, tuple) and held[0] == "block":
                    # a local holding the rows a:b of a table: all of them (``block[:, c]``), or nothing is known
                    whole = isinstance(rows, ast.Slice) and not any((rows.lower, rows.upper, rows.step))
                    _reads.append((sub, held[1], held[2]) if whole else (sub, None, None))

        w = _Windows(probe=probe, tables=tables)
        for g_ in set(group.values()):
            w.deps["@" + g_] = set()
        last = w.run(list(lp.body), {n_: {"@" + group[n_]: 1} for n_ in carried})
        ends = w.ends + ([last] if last is not None else [])
        after = {}
        for n_ in carried:
            vals = [e_.get(n_) for e_ in ends]
            after[n_] = vals[0] if vals and isinstance(vals[0], dict) and all(v == vals[0] for v in vals) else w.unknown()
        finer = {n_: group[n_] + " -> " + _Windows.render(after[n_]) for n_ in carried}
        if len(set(finer.values())) == len(set(group.values())):
            break
        group = {n_: str(sorted(set(finer.values())).index(finer[n_])) for n_ in carried}
    n_rows = 0
    used: dict[str, list] = {}

    def column(sub: ast.Subscript) -> str:
        return norm_stmt(sub.slice.elts[1], 40) if isinstance(sub.slice, ast.Tuple) else norm_stmt(sub, 40)

    for sub, lo, hi in reads:
        base = next((t for t in (lo or {}) if t.startswith("@")), None) if isinstance(lo, dict) and len(lo) == 1 and set(lo.values()) == {1} else None
        members = [n_ for n_ in carried if "@" + group[n_] == base]
        cur = "/".join(members) or "k"
        ok = base is not None
        width = None
        if ok and hi != "row":
            ok = isinstance(hi, dict)
            width = w.add(hi, lo, -1) if ok else None
        if ok:
            used.setdefault(base, []).append((sub, width))
        n_rows += 1
        ctx.ob("11.1-ds-csv", con, ok, f"`{norm_stmt(sub, 60)}` does not read rows that start at the row cursor ({cur}) of the variable being added: a field (or the missing-value marker) of another variable is attributed to it", node=sub, stmt=f"rows of `{column(sub)}` start at the variable's first row")
    ctx.ob("11.1-ds-csv", con, len(used) == 1 and n_rows >= 1, "the fields of a variable are read from rows counted from one running cursor", node=lp, stmt="one row cursor")
    for base, subs in sorted(used.items()):
        members = [n_ for n_ in carried if "@" + group[n_] == base]
        cur = "/".join(members)
        steps = [w.add(after[n_], {base: 1}, -1) for n_ in members]
        ok = bool(ends) and bool(steps) and all(s_ == steps[0] for s_ in steps) and bool(steps[0]) and not any(t.startswith(("@", "?")) for t in steps[0])
        ctx.ob("11.1-ds-csv", con, ok, f"the row cursor {cur} is not advanced by one and the same amount on every path to the next variable (a variable that is skipped, or added twice, shifts the rows of all the following ones)", node=lp, stmt=f"cursor {cur}: advanced once per variable on every path")
        step = steps[0] if ok else None
        ok = step is not None and bool(w.names_of(step) & item)
        ctx.ob("11.1-ds-csv", con, ok, f"the row cursor {cur} advances by an amount that does not depend on the variable of the loop ({unparse(lp.target)}): rows are attributed with the size of another variable", node=lp, stmt=f"cursor {cur}: advance by the size of the own variable")
        for sub, width in subs:
            if width is not None:
                ctx.ob("11.1-ds-csv", con, step is not None and width == step, f"`{norm_stmt(sub, 60)}` does not read exactly the rows of the variable being added ({cur} : {cur} + its size): a field (or the missing-value marker) of another variable is attributed to it", node=sub, stmt=f"rows of `{column(sub)}` are the variable's own")
    ctx.floor("11.1-ds-csv", 5)


def check_problem_tables(ctx: Ctx) -> None:
    w = ctx.index.method(OP, "OptimizationProblem", "to_hdf")
    r = ctx.index.method(OP, "OptimizationProblem", "from_hdf")
    cw, cr = cfg_of(w), cfg_of(r)
    # writer special cases: attr_name == "X" -> attr = self.<path>
    special = {}
    for s in stmts_of(w):
        if isinstance(s, ast.Assign) and dotted(s.targets[0]) == "attr" and not isinstance(s.value, ast.Call):
            for t, v in branch_conditions(cw, cw.node_of(s)):
                if cw.kind[t] == "test" and v:
                    cp = compare_parts(cw.ast[t].test)
                    if cp and dotted(cp[0]) == "attr_name" and isinstance(cp[2], ast.Constant):
                        special[cp[2].value] = dotted(s.value).replace("self.", "", 1)
    cls = ctx.index.cls(OP, "OptimizationProblem")
    desc = cls.class_attrs.get("_OPTIM_DESCRIPTION")
    listed = [e.value for e in desc.value.elts] if desc is not None and isinstance(desc.value, ast.List) else []
    ctx.need(listed, "OptimizationProblem._OPTIM_DESCRIPTION not found")
    # reader: attr_name == "X" -> where the value goes
    restored = {}
    # the locals that hold the value read for the current entry: for attr_name, attr in group.items(): val = attr[()]
    read_vals: set[str] = set()
    for lp_ in [s for s in stmts_of(r) if isinstance(s, ast.For) and isinstance(s.target, ast.Tuple) and len(s.target.elts) == 2 and dotted(s.target.elts[0]) == "attr_name"]:
        raw = names_in(lp_.target.elts[1])  # the HDF dataset of the entry: its content is read with [()]
        for _ in range(3):
            for s_ in ast.walk(lp_):
                if isinstance(s_, ast.Assign) and isinstance(s_.targets[0], ast.Name) and s_.targets[0].id != "attr_name" and names_in(s_.value) & (raw | read_vals):
                    read_vals.add(s_.targets[0].id)
        read_vals -= raw

    def is_read_value(e: ast.AST) -> bool:
        """The value read for the entry, as it is or through a scalar conversion."""
        if isinstance(e, ast.Call) and dotted(e.func) in ("float", "int", "bool", "str") and len(e.args) == 1 and not e.keywords:
            e = e.args[0]
        elif isinstance(e, ast.Call) and isinstance(e.func, ast.Attribute) and e.func.attr == "item" and not e.args and not e.keywords:
            e = e.func.value
        return isinstance(e, ast.Name) and e.id in read_vals

    for s in stmts_of(r):
        tgt = None
        if isinstance(s, ast.Assign) and isinstance(s.targets[0], ast.Attribute) and (dotted(s.targets[0]) or "").startswith("problem.") and is_read_value(s.value):
            tgt = dotted(s.targets[0]).replace("problem.", "", 1)
        elif isinstance(s, ast.Assign) and dotted(s.targets[0]) == "attr_name" and isinstance(s.value, ast.Constant):
            tgt = s.value.value
        if tgt is None:
            continue
        for t, v in branch_conditions(cr, cr.node_of(s)):
            if cr.kind[t] == "test" and v:
                cp = compare_parts(cr.ast[t].test)
                if cp and dotted(cp[0]) == "attr_name" and isinstance(cp[2], ast.Constant):
                    restored[cp[2].value] = tgt
    for name in listed:
        src = special.get(name)
        if src is not None and src != name:
            got = restored.get(name)
            ok = got == src
            ctx.ob("11.1-problem-description", cname(OP, "OptimizationProblem", "from_hdf"), ok, f"to_hdf writes '{name}' from problem.{src}; from_hdf must put it back into problem.{src} (it currently goes to {got or 'a stray attribute problem.' + name}): the reloaded problem does not have the saved {src}", node=r, stmt=f"'{name}' restored into problem.{src}")
        else:
            got = restored.get(name, name)
            ok = got == name or got.endswith("__" + name) or got.endswith(name)
            ctx.ob("11.1-problem-description", cname(OP, "OptimizationProblem", "from_hdf"), ok, f"'{name}' is restored into {got}", node=r, stmt=f"'{name}' restored")

    # groups written vs read
    def groups(func):
        return {n.attr for n in walk_body(func) if isinstance(n, ast.Attribute) and n.attr.startswith("_") and n.attr.endswith("_GROUP")}

    gw, gr = groups(w), groups(r)
    ctx.ob("11.1-problem-groups", cname(OP, "OptimizationProblem", "from_hdf"), gw == gr and len(gw) >= 5, f"groups written {sorted(gw)} vs read {sorted(gr)}", node=r, stmt="same groups written and read")
    dbw = [c for c in walk_body(w) if isinstance(c, ast.Call) and norm_stmt(c.func) == "self.database.to_hdf"]
    ok = len(dbw) == 1 and const_value(kwarg(dbw[0], "append")) is True and dotted(kwarg(dbw[0], "hdf_node_path")) == "hdf_node_path"
    ctx.ob("11.1-problem-groups", cname(OP, "OptimizationProblem", "to_hdf"), ok, "the database must be added to the same file and node (append=True: the description just written must not be erased)", node=(dbw or [w])[0])


def check_reload_order(ctx: Ctx) -> None:
    """11.5: what the reader derives from the reloaded problem as a whole (the Pareto front of a multi-objective
    solution is recomputed from history, constraints and tolerances) is derived once the problem is complete: no
    statement that still fills the problem (constraints and observables appended, options set, objective bound) can
    run after it."""
    f = ctx.index.method(OP, "OptimizationProblem", "from_hdf")
    con = cname(OP, "OptimizationProblem", "from_hdf")
    cfg = cfg_of(f)
    news = [s_ for s_ in stmts_of(f) if isinstance(s_, ast.Assign) and isinstance(s_.targets[0], ast.Name) and isinstance(s_.value, ast.Call) and dotted(s_.value.func) in ("cls", "OptimizationProblem")]
    ctx.need(len(news) == 1, "from_hdf: the creation of the reloaded problem was not found")
    pb = news[0].targets[0].id
    consumers = [c for c in walk_body(f) if isinstance(c, ast.Call) and any(dotted(a_) == pb for a_ in c.args) and (last_attr(c) or "").startswith("from_")]
    ctx.need(consumers, "from_hdf: no value derived from the whole reloaded problem found (ParetoFront.from_optimization_problem)")

    def fills(st: ast.stmt) -> bool:
        if isinstance(st, (ast.Assign, ast.AugAssign)):
            tg = st.targets if isinstance(st, ast.Assign) else [st.target]
            return any(isinstance(t, ast.Attribute) and (dotted(t) or "").startswith(pb + ".") and t.attr != "solution" for t in tg)
        if isinstance(st, ast.Expr) and isinstance(st.value, ast.Call):
            c = st.value
            if dotted(c.func) == "setattr" and c.args and dotted(c.args[0]) == pb:
                return True
            if isinstance(c.func, ast.Attribute) and c.func.attr in ("append", "extend", "add_constraint", "add_observable", "set_pt_from_database"):
                recv = c.func.value
                if (dotted(recv) or "").startswith(pb + "."):
                    return True
                # a loop variable ranging over the problem's own lists: for name, functions in zip(.., [pb.constraints, ..])
                for lp in stmts_of(f):
                    if isinstance(lp, ast.For) and any(x is st for x in ast.walk(lp)) and isinstance(recv, ast.Name) and recv.id in names_in(lp.target) and any((dotted(x) or "").startswith(pb + ".") for x in ast.walk(lp.iter) if isinstance(x, ast.Attribute)):
                        return True
        return False

    builders = [st for st in stmts_of(f) if fills(st)]
    ctx.need(len(builders) >= 3, "from_hdf: the statements that fill the reloaded problem were not found")
    for c in consumers:
        cn = cfg.node_of(rules.enclosing_stmt(f, c))
        late = [b for b in builders if cfg.has(b) and cfg.node_of(b) != cn and cfg.reachable(cn, cfg.node_of(b))]
        ctx.ob("11.5-reload-order", con, not late, f"`{norm_stmt(c, 60)}` is computed from the reloaded problem while it is still being filled (`{norm_stmt(late[0], 60) if late else ''}` runs after it): the derived value does not see what is read later (constraints: the Pareto front then contains infeasible points)", node=c, stmt=f"{last_attr(c)}({pb}) after the problem is complete")


MF = "core/mdo_functions/mdo_function.py"
OR_ = "algos/optimization_result.py"


def _class_consts(cls) -> dict[str, object]:
    """string / list-of-string / len(<string const>) class-level constants, by their (unmangled) name"""
    out: dict[str, object] = {}
    for s in cls.node.body:
        tgt = s.targets[0] if isinstance(s, ast.Assign) and len(s.targets) == 1 else s.target if isinstance(s, ast.AnnAssign) and s.value is not None else None
        if not isinstance(tgt, ast.Name):
            continue
        v = s.value
        if isinstance(v, ast.Constant) and isinstance(v.value, str):
            out[tgt.id] = v.value
        elif isinstance(v, (ast.List, ast.Tuple)):
            elts = [e.value if isinstance(e, ast.Constant) else out.get(e.id) if isinstance(e, ast.Name) else None for e in v.elts]
            if all(isinstance(e, str) for e in elts):
                out[tgt.id] = elts
        elif isinstance(v, ast.Call) and dotted(v.func) == "len" and len(v.args) == 1 and isinstance(v.args[0], ast.Name) and isinstance(out.get(v.args[0].id), str):
            out[tgt.id] = len(out[v.args[0].id])
    return out


def check_descriptions(ctx: Ctx) -> None:
    """11.6 the dictionary forms that the problem file stores: function descriptions and the solution."""
    # -- MDOFunction.to_dict / init_from_dict_repr: every serialised attribute is a constructor parameter that the
    #    constructor stores under the same name (the reader calls MDOFunction(func=None, **attributes))
    cls = ctx.index.cls(MF, "MDOFunction")
    consts = _class_consts(cls)
    attrs = consts.get("DICT_REPR_ATTR")
    ctx.need(isinstance(attrs, list) and len(attrs) >= 5, "MDOFunction.DICT_REPR_ATTR not found")
    init = cls.methods["__init__"]
    params = {a.arg for a in [*init.args.args, *init.args.kwonlyargs]}
    sv = SymValues(init)
    stored = {}
    for st in stmts_of(init):
        if isinstance(st, ast.Assign) and len(st.targets) == 1 and isinstance(st.targets[0], ast.Attribute) and dotted(st.targets[0].value) == "self":
            stored.setdefault(st.targets[0].attr, []).append(st.value)
    for a in attrs:
        con = cname(MF, "MDOFunction", "__init__")
        ok = a in params
        ctx.ob("11.6-function-description", con, ok, f"'{a}' is written by to_dict (DICT_REPR_ATTR) but is not a parameter of MDOFunction.__init__: init_from_dict_repr(**attributes) raises on reload", node=init, stmt=f"DICT_REPR_ATTR entry {a} is a constructor parameter")
        vals = stored.get(a, [])
        prop = cls.methods.get(a)
        if not vals and prop is not None:
            # a read-only property over a private attribute the constructor fills
            rr = [s_ for s_ in stmts_of(prop) if isinstance(s_, ast.Return) and s_.value is not None]
            if len(rr) == 1 and isinstance(rr[0].value, ast.Attribute) and dotted(rr[0].value.value) == "self":
                vals = stored.get(rr[0].value.attr, [])
        # the attribute read back by to_dict is the value given to the constructor (possibly with a falsy default)
        ok = bool(vals) and all(any(t == a or t.startswith(f"{a} or ") for t in sv.texts(v)) for v in vals[-1:])
        ctx.ob("11.6-function-description", con, ok, f"the constructor must store its parameter '{a}' in self.{a}: it is the attribute to_dict reads, so a reloaded function has the description that was saved", node=(vals or [init])[-1], stmt=f"self.{a} = {a}")
    td = cls.methods["to_dict"]
    ok = any(isinstance(n, ast.For) and norm_stmt(n.iter).endswith("DICT_REPR_ATTR") for n in stmts_of(td)) and any(isinstance(c, ast.Call) and dotted(c.func) == "getattr" for c in walk_body(td))
    ctx.ob("11.6-function-description", cname(MF, "MDOFunction", "to_dict"), ok, "to_dict writes the attributes listed in DICT_REPR_ATTR (read with getattr)", node=td, stmt="for attr_name in DICT_REPR_ATTR: getattr")
    rd = cls.methods["init_from_dict_repr"]
    rets = [s_ for s_ in stmts_of(rd) if isinstance(s_, ast.Return) and s_.value is not None]
    kw = rd.args.kwarg.arg if rd.args.kwarg else None
    ok = len(rets) == 1 and isinstance(rets[0].value, ast.Call) and dotted(rets[0].value.func) == "MDOFunction" and any(k.arg is None and dotted(k.value) == kw for k in rets[0].value.keywords)
    ctx.ob("11.6-function-description", cname(MF, "MDOFunction", "init_from_dict_repr"), bool(ok), "the reader hands every saved attribute to the constructor", node=rd, stmt="MDOFunction(func=None, **attributes)")
    # -- OptimizationResult.to_dict / from_dict: the two constraint mappings travel under two prefixes
    rc = ctx.index.cls(OR_, "OptimizationResult")
    rconsts = _class_consts(rc)
    w, r = rc.methods["to_dict"], rc.methods["from_dict"]
    con_w, con_r = cname(OR_, "OptimizationResult", "to_dict"), cname(OR_, "OptimizationResult", "from_dict")

    def const_of(e):  # self.__X / cls.__X (mangled or not) -> (name, value)
        if isinstance(e, ast.Attribute) and dotted(e.value) in ("self", "cls"):
            n = e.attr
            for k_ in rconsts:
                if n == k_ or n.endswith(k_) and n == mangle("OptimizationResult", k_):
                    return k_, rconsts[k_]
        return None

    # writer: (mapping attribute, prefix) pairs
    wpairs = {}
    for lp in (n for n in stmts_of(w) if isinstance(n, ast.For)):
        if isinstance(lp.target, ast.Tuple) and len(lp.target.elts) == 2 and isinstance(lp.iter, (ast.List, ast.Tuple)):
            for el in lp.iter.elts:
                if isinstance(el, ast.Tuple) and len(el.elts) == 2 and isinstance(el.elts[0], ast.Attribute) and dotted(el.elts[0].value) == "self":
                    c = const_of(el.elts[1])
                    if c is not None and isinstance(c[1], str):
                        wpairs[el.elts[0].attr] = c[1]
            mvar, pvar = (dotted(e) for e in lp.target.elts)
            keyed = [s_ for s_ in ast.walk(lp) if isinstance(s_, ast.Assign) and isinstance(s_.targets[0], ast.Subscript) and isinstance(s_.targets[0].slice, ast.JoinedStr)]
            okk = len(keyed) == 1
            if okk:
                js = keyed[0].targets[0].slice
                parts = [dotted(v.value) for v in js.values if isinstance(v, ast.FormattedValue)]
                inner = [l_ for l_ in ast.walk(lp) if isinstance(l_, ast.For) and l_ is not lp]
                okk = len(parts) == 2 and parts[0] == pvar and len(inner) == 1 and norm_stmt(inner[0].iter) == f"{mvar}.items()" and isinstance(inner[0].target, ast.Tuple) and parts[1] == dotted(inner[0].target.elts[0]) and dotted(keyed[0].value) == dotted(inner[0].target.elts[1]) and not any(isinstance(v, ast.Constant) for v in js.values)
            ctx.ob("11.6-solution", con_w, okk, "each entry of a constraint mapping is written under <prefix of that mapping><constraint name>", node=lp, stmt="dict_[f'{prefix}{key}'] = value")
    ok = set(wpairs) == {"constraint_values", "constraints_grad"} and len(set(wpairs.values())) == 2
    ctx.ob("11.6-solution", con_w, ok, f"to_dict writes the constraint values and the constraint gradients under two different prefixes (found {wpairs})", node=w, stmt="(constraint_values, C_TAG), (constraints_grad, CGRAD_TAG)")
    if ok:
        a_, b_ = wpairs.values()
        ctx.ob("11.6-solution", con_w, not a_.startswith(b_) and not b_.startswith(a_), f"no prefix may begin with the other ({a_!r}, {b_!r}): from_dict routes a key by startswith, so an entry of one mapping would also land in the other", node=w, stmt="prefixes are not prefixes of each other")
    # reader: for each `if key.startswith(T): m[key[T_LEN:]] = value`, m ends up in the field whose writer prefix is T
    rpairs = {}
    fields_of = {}
    for call in (c for c in walk_body(r) if isinstance(c, ast.Call) and last_attr(c) == "update" and c.args and isinstance(c.args[0], ast.Dict)):
        for k_, v_ in zip(c.args[0].keys if False else call.args[0].keys, call.args[0].values):
            c_ = const_of(k_)
            src = v_.values[0] if isinstance(v_, ast.BoolOp) and isinstance(v_.op, ast.Or) else v_
            if c_ is not None and isinstance(src, ast.Name):
                fields_of[src.id] = c_[1]
    for st in (n for n in stmts_of(r) if isinstance(n, ast.If)):
        t = st.test
        if not (isinstance(t, ast.Call) and last_attr(t) == "startswith" and len(t.args) == 1):
            continue
        tag = const_of(t.args[0])
        stores = [s_ for s_ in st.body if isinstance(s_, ast.Assign) and isinstance(s_.targets[0], ast.Subscript) and isinstance(s_.targets[0].value, ast.Name)]
        okr = tag is not None and len(stores) == 1 and len(st.body) == 1
        if okr:
            sub = stores[0].targets[0]
            sl = sub.slice
            cut = const_of(sl.slice.lower) if isinstance(sl, ast.Subscript) and isinstance(sl.slice, ast.Slice) and sl.slice.upper is None and sl.slice.lower is not None else None
            cut_ok = cut is not None and cut[1] == len(tag[1]) and dotted(sl.value) == dotted(t.func.value)
            if isinstance(sl, ast.Call) and last_attr(sl) == "removeprefix" and len(sl.args) == 1:
                c2 = const_of(sl.args[0])
                cut_ok = c2 is not None and c2[1] == tag[1] and dotted(sl.func.value) == dotted(t.func.value)
            okr = cut_ok
            if okr:
                rpairs[fields_of.get(sub.value.id, sub.value.id)] = tag[1]
        ctx.ob("11.6-solution", con_r, bool(okr), "a key carrying a prefix is stored under the key WITHOUT that prefix (the cut length is the length of the same prefix)", node=st, stmt=f"if key.startswith({norm_stmt(t.args[0])}): strip that prefix")
    ctx.ob("11.6-solution", con_r, bool(wpairs) and rpairs == wpairs, f"from_dict must route each prefix to the field to_dict wrote it from: writer {wpairs}, reader {rpairs}", node=r, stmt="reader prefixes -> fields = writer fields -> prefixes")
    # -- the converter of a saved group: an ARRAY of strings is a list of names, whatever its length (a scalar string is a
    #    scalar dataset, read as bytes); collapsing a one-element array loses the list (F53: ['xx'] -> 'xx' -> ['x', 'x'])
    cv = ctx.index.func("utils/hdf5.py", "convert_h5_group_to_dict")
    con = "utils/hdf5.py::convert_h5_group_to_dict"
    n_arr = 0
    for st in stmts_of(cv):
        if not (isinstance(st, ast.If) and any(isinstance(c, ast.Call) and dotted(c.func) == "isinstance" and len(c.args) == 2 and dotted(c.args[1]) == "ndarray" for c in ast.walk(st.test))):
            continue
        arr = next(dotted(c.args[0]) for c in ast.walk(st.test) if isinstance(c, ast.Call) and dotted(c.func) == "isinstance" and len(c.args) == 2 and dotted(c.args[1]) == "ndarray")
        for a_ in (x for b in st.body for x in ast.walk(b) if isinstance(x, ast.Assign) and dotted(x.targets[0]) == arr):
            n_arr += 1
            alts = [a_.value.body, a_.value.orelse] if isinstance(a_.value, ast.IfExp) else [a_.value]
            ok = all(isinstance(v, ast.Call) and ((last_attr(v) == "tolist" and dotted(v.func.value) == arr) or (dotted(v.func) == "list" and len(v.args) == 1)) for v in alts)
            ctx.ob("11.6-string-lists", con, ok, "an array of strings read from the file must become a LIST for every length: a one-element list of names collapsed to a string is iterated character by character by the constructor of the function", node=a_, stmt="an array of strings is read back as a list")
    ctx.floor("11.6-string-lists", 1)
    ctx.floor("11.6-function-description", 10)
    ctx.floor("11.6-solution", 5)


def check_node_relative(ctx: Ctx) -> None:
    """11.7 everything a writer stores for an object lives under the HDF node of that object: a group / dataset name that
    begins with '/' is an ABSOLUTE path in HDF5, i.e. the root of the file whatever the node (F56: the dictionaries of a
    solution saved at a node landed at the root, replaced those of the problem saved there, and were not found on reload)."""
    sites = [("utils/hdf5.py", None, "store_attr_h5data"), ("utils/hdf5.py", None, "store_h5data"), (OP, "OptimizationProblem", "to_hdf"), (DS, "DesignSpace", "to_hdf")]
    hd = next(iter(c for c in ctx.index.module(HD).classes.values() if "to_file" in c.methods), None)
    n = 0
    funcs = [(rel, cn, fn, ctx.index.method(rel, cn, fn) if cn else ctx.index.func(rel, fn)) for rel, cn, fn in sites]
    if hd is not None:
        funcs += [(HD, hd.qualname, mn, m) for mn, m in hd.methods.items()]
    for rel, cn, fn, f in funcs:
        sv = None
        for c in walk_body(f):
            if not (isinstance(c, ast.Call) and last_attr(c) in ("require_group", "create_group", "create_dataset") and c.args):
                continue
            sv = sv or SymValues(f)
            n += 1
            texts = sv.texts(c.args[0])
            absolute = [t for t in texts if re.match(r"""^f?['"]/""", t)]
            ctx.ob("11.7-node-relative", cname(rel, cn, fn) if cn else f"{rel}::{fn}", not absolute, f"`{norm_stmt(c, 70)}` names `{absolute[0] if absolute else ''}`: a name beginning with '/' is resolved from the ROOT of the file, not from the node the object is saved in", node=c, stmt=f"{last_attr(c)}(<name relative to the node>)")
    ctx.floor("11.7-node-relative", 8)


def run(ctx: Ctx) -> None:
    check_reload_order(ctx)
    check_database_tables(ctx)
    check_append(ctx)
    check_pending(ctx)
    check_design_space_tables(ctx)
    check_csv_rows(ctx)
    check_cache_tables(ctx)
    check_problem_tables(ctx)
    check_descriptions(ctx)
    check_node_relative(ctx)
    h5py_files_in_with(ctx, "11.4-with", ["algos/_hdf_database.py", "algos/design_space.py", "algos/optimization_problem.py", "algos/database.py", "utils/hdf5.py", "algos/opt/mnbi/mnbi.py"], 6)
    ctx.floor("11.2-resize", 2)
    ctx.floor("11.1-problem-description", 6)


# ---------------------------------------------------------------------------
_DBF = "algos/database.py"
WITNESSES = [
    {"name": "mapping-written-at-the-file-root", "file": "utils/hdf5.py", "old": "            new_group = parent.require_group(name)\n", "new": "            new_group = group.require_group(f\"/{name}\")\n", "expect": "11.7"},
    {"name": "one-element-string-array-collapsed", "file": "utils/hdf5.py", "old": "            value = value.tolist()\n", "new": "            value = value[0] if value.size == 1 else value.tolist()\n", "expect": "11.6"},
    {"name": "function-description-lists-a-non-parameter", "file": MF, "old": "        \"special_repr\",\n        \"output_names\",\n    ]", "new": "        \"special_repr\",\n        \"output_names\",\n        \"last_eval\",\n    ]", "expect": "11.6"},
    {"name": "function-dim-not-stored", "file": MF, "old": "        self.dim = dim\n", "new": "        self.dim = 0\n", "expect": "11.6"},
    {"name": "solution-prefix-of-the-other", "file": OR_, "old": "    __C_TAG = \"constr:\"", "new": "    __C_TAG = \"constr\"", "expect": "11.6"},
    {"name": "solution-cut-with-the-other-length", "file": OR_, "old": "                cstr[key[cls.__C_TAG_LEN :]] = value", "new": "                cstr[key[cls.__CGRAD_TAG_LEN :]] = value", "expect": "11.6"},
    {"name": "solution-mappings-swapped-on-reload", "file": OR_, "old": "            cls.__CONSTRAINTS_VALUES: cstr or None,\n            cls.__CONSTRAINTS_GRAD: cstr_grad or None,", "new": "            cls.__CONSTRAINTS_VALUES: cstr_grad or None,\n            cls.__CONSTRAINTS_GRAD: cstr or None,", "expect": "11.6"},
    {"name": "solution-gradients-under-the-value-prefix", "file": OR_, "old": "            (self.constraints_grad, self.__CGRAD_TAG),", "new": "            (self.constraints_grad, self.__C_TAG),", "expect": "11.6"},
    {"name": "seeded-C11-10", "file": "algos/optimization_problem.py", "old": "\n            for name, functions in zip(\n                [problem._CONSTRAINTS_GROUP, problem._OBSERVABLES_GROUP],\n                [problem.constraints, problem.observables],\n            ):\n                if name in h5file:\n                    group = get_hdf5_group(h5file, name)\n                    for function_name in group:\n                        functions.append(\n                            MDOFunction.init_from_dict_repr(\n                                **convert_h5_group_to_dict(group, function_name)\n                            )\n                        )\n\n            is_mono_objective = False\n            with contextlib.suppress(ValueError):\n                # Sometimes the dimension of the problem cannot be determined.\n                is_mono_objective = problem.is_mono_objective\n\n            if not is_mono_objective and problem._SOLUTION_GROUP in h5file:\n                pareto_front = (\n                    ParetoFront.from_optimization_problem(problem)\n                    if problem.solution.is_feasible\n                    else None\n                )\n                problem.solution = MultiObjectiveOptimizationResult(\n                    **problem.solution.__dict__, pareto_front=pareto_front\n                )\n\n", "new": "\n            is_mono_objective = False\n            with contextlib.suppress(ValueError):\n                # Sometimes the dimension of the problem cannot be determined.\n                is_mono_objective = problem.is_mono_objective\n\n            if not is_mono_objective and problem._SOLUTION_GROUP in h5file:\n                pareto_front = (\n                    ParetoFront.from_optimization_problem(problem)\n                    if problem.solution.is_feasible\n                    else None\n                )\n                problem.solution = MultiObjectiveOptimizationResult(\n                    **problem.solution.__dict__, pareto_front=pareto_front\n                )\n\n            for name, functions in zip(\n                [problem._CONSTRAINTS_GROUP, problem._OBSERVABLES_GROUP],\n                [problem.constraints, problem.observables],\n            ):\n                if name in h5file:\n                    group = get_hdf5_group(h5file, name)\n                    for function_name in group:\n                        functions.append(\n                            MDOFunction.init_from_dict_repr(\n                                **convert_h5_group_to_dict(group, function_name)\n                            )\n                        )\n\n", "expect": "11.5", "note": "OptimizationProblem.from_hdf rebuilds the multi-objective solution (Pareto front"},
    {"name": "csv-cursor-starts-at-zero", "file": "algos/design_space.py", "old": "        k = start_read\n", "new": "        k = 0\n", "expect": "11.1"},
    {"name": "design-space-values-all-or-nothing", "file": DS, "old": "                value = self.__current_value.get(name)\n                if value is not None:\n                    var_grp.create_dataset(self.VALUE_GROUP, data=self.__to_real(value))", "new": "                if self.__has_current_value:\n                    value = self.__current_value[name]\n                    var_grp.create_dataset(self.VALUE_GROUP, data=self.__to_real(value))", "expect": "11.1"},
    {"name": "reader-other-group", "file": HD, "old": "            keys_group = h5file[\"k\"]", "new": "            keys_group = h5file[\"keys\"]", "expect": "11.1"},
    {"name": "writer-subgroup-renamed", "file": HD, "old": "        sub_group_name = f\"arr_{index_dataset}\"", "new": "        sub_group_name = f\"vec_{index_dataset}\"", "expect": "11.1"},
    {"name": "scalars-zipped-with-all-keys", "file": HD, "old": "                            (k for k in keys if k not in names_to_arrays),", "new": "                            (k for k in keys),", "expect": "11.1"},
    {"name": "vector-stored-at-position-in-loop", "file": HD, "old": "                    index_dataset, idx_value, values_group, value\n", "new": "                    index_dataset, len(values), values_group, value\n", "expect": "11.1"},
    {"name": "names-written-unsorted", "file": HD, "old": "        self.__add_hdf_name_output(index_dataset, keys_group, output_keys_sorted)", "new": "        self.__add_hdf_name_output(index_dataset, keys_group, list(output_values))", "expect": "11.1"},
    {"name": "offset-after-resize", "file": HD, "old": "            offset = len(keys_group[name])\n            keys_group[name].resize((offset + len(keys),))\n", "new": "            keys_group[name].resize((len(keys_group[name]) + len(keys),))\n            offset = len(keys_group[name])\n", "expect": "11.2"},
    {"name": "tail-off-by-one", "file": HD, "old": "            values_group[name][offset:] = self.__to_real(values)", "new": "            values_group[name][offset + 1 :] = self.__to_real(values)", "expect": "11.2"},
    {"name": "resize-without-new-items", "file": HD, "old": "            values_group[name].resize((offset + len(values),))", "new": "            values_group[name].resize((offset,))", "expect": "11.2"},
    {"name": "missing-ids-from-zero", "file": HD, "old": "        missing_ids = list(range(len(existing_output_names), len(output_values)))", "new": "        missing_ids = list(range(len(output_values) - len(existing_output_names)))", "expect": "11.2"},
    {"name": "missing-names-unsorted", "file": HD, "old": "            zip(sorted(missing_name_values.keys()), missing_ids)", "new": "            zip(missing_name_values.keys(), missing_ids)", "expect": "11.2"},
    {"name": "pending-after-notification", "file": _DBF, "old": "        hashed_input_value = self.get_hashable_ndarray(x_vect, True)\n        self.__hdf_database.add_pending_array(hashed_input_value)\n", "new": "        hashed_input_value = self.get_hashable_ndarray(x_vect, True)\n", "expect": "11.3"},
    {"name": "pending-cleared-before-export", "file": HD, "old": "            design_vars_grp = h5file.require_group(\"x\")\n", "new": "            design_vars_grp = h5file.require_group(\"x\")\n            self.__pending_arrays.clear()\n", "expect": "11.3"},
    {"name": "append-always-creates", "file": HD, "old": "                    if str(index_dataset) in design_vars_grp:\n                        self.__append_hdf_output(", "new": "                    if str(index_dataset) in keys_group and False:\n                        self.__append_hdf_output(", "expect": "11.3"},
    {"name": "append-iterates-database", "file": HD, "old": "                for input_values in self.__pending_arrays.values():", "new": "                for input_values in list(database.keys())[-1:]:", "expect": "11.3"},
    {"name": "ds-reader-skips-size", "file": DS, "old": "                size = get_hdf5_group(var_group, design_space.SIZE_GROUP)[()]", "new": "                size = len(l_b)", "expect": "11.1"},
    {"name": "ds-bounds-swapped-on-read", "file": DS, "old": "design_space.add_variable(name, size, var_type, l_b, u_b, value)", "new": "design_space.add_variable(name, size, var_type, u_b, l_b, value)", "nth": 0, "expect": "11.1"},
    {"name": "ds-writer-stores-upper-as-lower", "file": DS, "old": "var_grp.create_dataset(self.LB_GROUP, data=variable.lower_bound)", "new": "var_grp.create_dataset(self.LB_GROUP, data=variable.upper_bound)", "expect": "11.1"},
    {"name": "ds-names-sorted-on-read", "file": DS, "old": "            for name in variable_names:\n                name = name.decode()", "new": "            for name in sorted(variable_names):\n                name = name.decode()", "expect": "11.1"},
    {"name": "sparse-shape-not-read", "file": HS, "old": "        return csr_array((dataset, indices, indptr), shape)", "new": "        return csr_array((dataset, indices, indptr))", "expect": "11.1"},
    {"name": "sparse-indices-swapped", "file": HS, "old": "        return csr_array((dataset, indices, indptr), shape)", "new": "        return csr_array((dataset, indptr, indices), shape)", "expect": "11.1"},
    {"name": "cache-entry-read-elsewhere", "file": HS, "old": "            entry = root[str(index)]\n", "new": "            entry = root[str(index + 1)]\n", "expect": "11.1"},
    {"name": "strings-not-decoded", "file": HS, "old": "                if value.dtype.type is bytes_:\n                    data[name] = value.astype(str_)", "new": "                if value.dtype.type is bytes_:\n                    data[name] = value", "expect": "11.1"},
    {"name": "tolerances-read-into-stray-attributes", "file": OP, "old": "                if attr_name == \"ineq_tolerance\":\n                    problem.tolerances.inequality = val\n                    continue\n", "new": "", "expect": "11.1"},
    {"name": "problem-database-overwrites", "file": OP, "old": "        self.database.to_hdf(file_path, append=True, hdf_node_path=hdf_node_path)", "new": "        self.database.to_hdf(file_path, append=append, hdf_node_path=hdf_node_path)", "expect": "11.1"},
    {"name": "file-opened-without-with", "file": HD, "old": "        with h5py.File(file_path) as h5file:\n", "new": "        h5file = h5py.File(file_path)\n        if True:\n", "expect": "11.4"},
]
TWINS = [
    {"name": "solution-removeprefix", "file": OR_, "old": "                cstr[key[cls.__C_TAG_LEN :]] = value", "new": "                cstr[key.removeprefix(cls.__C_TAG)] = value"},
    {"name": "function-description-original-name", "file": MF, "old": "        \"special_repr\",\n        \"output_names\",\n    ]", "new": "        \"special_repr\",\n        \"output_names\",\n        \"original_name\",\n    ]"},
    {"name": "groups-renamed-consistently", "edits": [
        {"file": HD, "old": "            keys_group = h5file.require_group(\"k\")", "new": "            keys_group = h5file.require_group(\"names\")"},
        {"file": HD, "old": "            keys_group = h5file[\"k\"]", "new": "            keys_group = h5file[\"names\"]"},
    ]},
    {"name": "resize-sum-swapped", "file": HD, "old": "            keys_group[name].resize((offset + len(keys),))", "new": "            keys_group[name].resize((len(keys) + offset,))"},
]
