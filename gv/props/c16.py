"""C16 -- derivative approximations: index spaces, quotient structure, placement, bound flip."""

from __future__ import annotations

import ast

from gv import rules
from gv.astutil import compare_parts
from gv.astutil import as_update
from gv.astutil import const_value
from gv.astutil import dotted
from gv.astutil import kwarg
from gv.astutil import last_attr
from gv.astutil import names_in
from gv.astutil import norm_stmt
from gv.astutil import stmts_of
from gv.astutil import unparse
from gv.astutil import walk_body
from gv.cfg import cfg_of
from gv.props.shared import literal_facts
from gv.props.shared import unfolded
from gv.props import describe
from gv.props.shared import branch_conditions
from gv.report import Ctx
from gv.report import cname
from gv.shapes import ShapeAnalysis
from gv.shapes import arr
from gv.shapes import one
from gv.shapes import single
from gv.shapes import specialise

FD = "utils/derivatives/finite_differences.py"
CS = "utils/derivatives/complex_step.py"
CD = "utils/derivatives/centered_differences.py"
BA = "utils/derivatives/base_gradient_approximator.py"
DA = "utils/derivatives/derivatives_approx.py"

describe(
    "C16",
    explanation=(
        "The error order of the approximations is NOT decided. Decided: axis-kind typing with two index spaces "
        "(C components of x, P perturbations / differentiated components) of the perturbation generators and of "
        "the difference quotients, for a scalar step and for a per-component step, with and without a design "
        "space: no perturbation index is applied to a component axis and no (P,) array is combined with a (C,) "
        "array; the serial and parallel twins compute the same quotient with the same pairing of outputs and "
        "perturbations; a partial Jacobian is placed in the columns of the differentiated components; the step "
        "flips at the upper bounds, normalised iff the approximator works on normalised inputs."
    ),
    decided=["16.1 component vs perturbation index spaces", "16.2 serial/parallel twins", "16.3 placement of a partial Jacobian", "16.4 step flip at upper bounds", "16.4 forward/backward points compared with the upper/lower bounds (normalised iff inputs are)", "16.5 flat indices of check_jacobian", "16.6 perturbed points evaluated under zero cache tolerance", "16.6 zeroing depends on the existence of the cache only"],
    not_decided=["error order of the approximation", "rounding error", "safety with respect to lower bounds"],
)


def _hooks():
    def extra_call(sa, e, env):
        n = last_attr(e)
        if n in ("get_upper_bounds", "get_lower_bounds"):
            return arr("C")
        if n in ("normalize_vect", "normalize_vect_") and e.args:
            return sa.evaluate(e.args[0], env)
        if n in ("f_pointer", "_wrap_function"):
            for a in e.args:
                sa.evaluate(a, env)
            return arr("m")
        if n in ("zeros", "ones", "empty", "full") and not e.args and kwarg(e, "shape") is not None:
            # zeros(shape=(a, b), ...) is zeros((a, b), ...)
            pos = ast.Call(func=e.func, args=[kwarg(e, "shape")], keywords=[k for k in e.keywords if k.arg != "shape"])
            return sa.evaluate(ast.copy_location(pos, e), env)
        if n == "repeat" and e.args and not any(isinstance(a, ast.Starred) for a in e.args):
            # repeat(a[:, newaxis], n, axis=1): the unit axis becomes an axis of the kind n counts
            reps = e.args[1] if len(e.args) > 1 else kwarg(e, "repeats")
            axis = e.args[2] if len(e.args) > 2 else kwarg(e, "axis")
            v = single(sa.evaluate(e.args[0], env))
            r = single(sa.evaluate(reps, env)) if reps is not None else None
            ax = const_value(axis, None)
            if v and v[0] == "arr" and isinstance(ax, int) and not isinstance(ax, bool) and -len(v[1]) <= ax < len(v[1]):
                kinds = list(v[1])
                kinds[ax] = r[1] if r and r[0] == "dim" and kinds[ax] == "1" else "?"
                return arr(*kinds)
        return None

    return extra_call


CASES = (
    ("scalar step", {"isinstance(step, ndarray)": False, "step is None": False}, one(("scalar",))),
    ("per-component step", {"isinstance(step, ndarray)": True, "step is None": False}, arr("C")),
)
DS_CASES = (("no design space", {"self._design_space is None": True}), ("with a design space", {"self._design_space is None": False}))


def _analyse(ctx: Ctx, rel: str, cls: str, meth: str, facts: dict, init: dict, label: str):
    f0 = ctx.index.method(rel, cls, meth)
    f = specialise(f0, facts)
    sa = ShapeAnalysis(f, init, extra_call=_hooks())
    con = cname(rel, cls, meth)
    bad: dict[int, list[str]] = {}
    stmt_of = {}
    for node, msg in sa.problems:
        st = node if isinstance(node, ast.stmt) else rules.enclosing_stmt(f, node)
        bad.setdefault(id(st), []).append(msg)
        stmt_of[id(st)] = st
    seen = set()
    for (_, what), (node, _) in sorted(sa.sites.items(), key=lambda kv: getattr(kv[1][0], "lineno", 0)):
        st = node if isinstance(node, ast.stmt) else rules.enclosing_stmt(f, node)
        if id(st) in seen:
            continue
        seen.add(id(st))
        msgs = sorted(set(bad.get(id(st), [])))
        ctx.ob("16.1-kinds", con, not msgs, f"[{label}] " + ("; ".join(msgs) + ": a perturbation index / array of the differentiated components is used where a component of x is expected (or conversely); with a strict subset of components the result is wrong or an exception" if msgs else "kind-sound"), node=st, stmt=f"[{label}] {norm_stmt(st, 90)}")
    for sid, msgs in bad.items():
        if sid not in seen:
            st = stmt_of[sid]
            ctx.ob("16.1-kinds", con, False, f"[{label}] " + "; ".join(sorted(set(msgs))), node=st, stmt=f"[{label}] {norm_stmt(st, 90)}")
    return f, sa


def check_kinds(ctx: Ctx) -> None:
    for rel, cls in ((FD, "FirstOrderFD"), (CS, "ComplexStep")):
        for sname, sfacts, stag in CASES:
            for dname, dfacts in DS_CASES if cls == "FirstOrderFD" else (("", {}),):
                label = ", ".join(x for x in (sname, dname) if x)
                init = {"input_values": arr("C"), "input_indices": one(("idxarr", ("P",), "C")), "step": stag}
                f, sa = _analyse(ctx, rel, cls, "_generate_perturbations", {**sfacts, **dfacts}, init, label)
                # what is handed to the quotient routines as ``step``
                rets = [s for s in stmts_of(f) if isinstance(s, ast.Return) and isinstance(s.value, ast.Tuple) and len(s.value.elts) == 2]
                reach = [r for r in rets if sa.cfg.has(r) and sa.cfg.reachable(sa.cfg.entry, sa.cfg.node_of(r))]
                if len(reach) != 1:
                    continue
                pert = sa.value(reach[0].value.elts[0])
                ctx.ob("16.1-perturbations", cname(rel, cls, "_generate_perturbations"), pert == ("arr", ("C", "P")), f"[{label}] the perturbations must be a components x perturbations array, got {pert}", node=reach[0], stmt=f"[{label}] perturbation array is C x P")
                steps = sa.fw.tags(reach[0].value.elts[1])
                for m in ("_compute_grad", "_compute_parallel_grad"):
                    init2 = {"input_values": arr("C"), "input_perturbations": arr("C", "P"), "step": steps}
                    sv = single(steps)
                    facts2 = {"step is None": False, "isinstance(step, ndarray)": bool(sv and sv[0] == "arr")}
                    _analyse(ctx, rel, cls, m, facts2, init2, label + f", step from the generator = {sv}")
    # centred differences: the same generator contract (its quotient divides by the distance of the two points, so
    # only the generator consumes the steps)
    for sname, sfacts, stag in CASES:
        for dname, dfacts in DS_CASES:
            init = {"input_values": arr("C"), "input_indices": one(("idxarr", ("P",), "C")), "step": stag}
            _analyse(ctx, CD, "CenteredDifferences", "_generate_perturbations", {**sfacts, **dfacts}, init, ", ".join((sname, dname)))
    ctx.floor("16.1-kinds", 40)


def _quotient_shape(e: ast.AST):
    """(numerator, denominator) of the difference quotient: the division that is not an integer count."""
    for n in ast.walk(e):
        if isinstance(n, ast.BinOp) and isinstance(n.op, ast.Div):
            if isinstance(n.right, ast.Constant) or (isinstance(n.left, ast.Call) and dotted(n.left.func) == "len"):
                continue
            return n.left, n.right
    return None, None


# ---------------------------------------------------------------------------
# 16.2: the quotients are decided on their RESOLVED form: locals unfolded (gv.dataflow.SymValues), loop variables bound
# by ``enumerate`` replaced by the element they stand for, ``seq[a:][k]`` / ``X.T[k]`` / ``[x, *s][k + 1]`` /
# ``[e(j) for j in ...][k]`` reduced to the element, and (second stage) an output replaced by the point at which it is
# evaluated: ``self.f_pointer(p, **kwargs)`` and ``<parallel execution>.execute(tasks)[i]`` are both ``F(p)``.

_MATRICES = {"input_perturbations"}  # the (C x P) array of the generator contract (rule 16.1-perturbations)


def _idx(e: ast.AST):
    """(name | None, offset) of the integer index expression ``name + offset`` (``1 + k``, ``k + 1``, ``k``, ``0``)."""
    if isinstance(e, ast.Constant) and isinstance(e.value, int) and not isinstance(e.value, bool):
        return (None, e.value)
    if isinstance(e, ast.Name):
        return (e.id, 0)
    if isinstance(e, ast.BinOp) and isinstance(e.op, (ast.Add, ast.Sub)):
        a, b = _idx(e.left), _idx(e.right)
        if a is None or b is None:
            return None
        if isinstance(e.op, ast.Add):
            return None if a[0] and b[0] else (a[0] or b[0], a[1] + b[1])
        return None if b[0] else (a[0], a[1] - b[1])
    return None


def _idx_ast(ix) -> ast.AST:
    name, c = ix
    if name is None:
        return ast.Constant(value=c)
    if c == 0:
        return ast.Name(id=name, ctx=ast.Load())
    return ast.BinOp(left=ast.Name(id=name, ctx=ast.Load()), op=ast.Add() if c > 0 else ast.Sub(), right=ast.Constant(value=abs(c)))


def _subst(e: ast.AST, mapping: dict) -> ast.AST:
    import copy

    class R(ast.NodeTransformer):
        def visit_Name(self, n):  # noqa: N802
            if isinstance(n.ctx, ast.Load) and n.id in mapping:
                return copy.deepcopy(mapping[n.id])
            return n

    return R().visit(copy.deepcopy(e))


def _is_call(e: ast.AST, name: str, nargs: int = 1) -> bool:
    return isinstance(e, ast.Call) and last_attr(e) == name and len(e.args) == nargs and not e.keywords and not any(isinstance(a, ast.Starred) for a in e.args)


class _Resolver(ast.NodeTransformer):
    """Reduces ``<sequence expression>[<index>]`` to the element; with ``evaluations`` also outputs to ``F(point)``."""

    def __init__(self, evaluations: bool):
        self.evaluations = evaluations

    def sub(self, seq: ast.AST, ix) -> ast.AST:
        r = self.elem(seq, ix)
        return r if r is not None else ast.Subscript(value=seq, slice=_idx_ast(ix), ctx=ast.Load())

    def _binding(self, gen: ast.comprehension, ix):
        """Values of the names bound by ``for <target> in <iter>`` at iteration ``ix``."""
        if gen.ifs or gen.is_async:
            return None
        t, it = gen.target, gen.iter
        if isinstance(t, ast.Name) and _is_call(it, "range") and isinstance(it.func, ast.Name):
            return {t.id: _idx_ast(ix)}
        if isinstance(t, ast.Tuple) and len(t.elts) == 2 and all(isinstance(x, ast.Name) for x in t.elts) and _is_call(it, "enumerate") and isinstance(it.func, ast.Name):
            return {t.elts[0].id: _idx_ast(ix), t.elts[1].id: self.sub(it.args[0], ix)}
        if isinstance(t, ast.Tuple) and all(isinstance(x, ast.Name) for x in t.elts) and _is_call(it, "zip", len(t.elts)) and isinstance(it.func, ast.Name):
            return {x.id: self.sub(a, ix) for x, a in zip(t.elts, it.args)}
        if isinstance(t, ast.Name) and not (isinstance(it, ast.Call) and dotted(it.func) in ("range", "enumerate", "zip", "reversed", "sorted")):
            return {t.id: self.sub(it, ix)}
        return None

    def elem(self, seq: ast.AST, ix):
        name, c = ix
        if c < 0:
            return None
        if isinstance(seq, ast.Subscript) and isinstance(seq.slice, ast.Slice) and seq.slice.step is None and seq.slice.upper is None:
            lo = (None, 0) if seq.slice.lower is None else _idx(seq.slice.lower)
            if lo is not None and lo[0] is None and lo[1] >= 0:
                return self.sub(seq.value, (name, c + lo[1]))
            return None
        transposed = None
        if isinstance(seq, ast.Attribute) and seq.attr == "T":
            transposed = seq.value
        elif _is_call(seq, "transpose", 0) and isinstance(seq.func, ast.Attribute):
            transposed = seq.func.value
        elif _is_call(seq, "transpose", 1):
            transposed = seq.args[0]
        if transposed is not None:
            if dotted(transposed) in _MATRICES:
                return ast.Subscript(value=transposed, slice=ast.Tuple(elts=[ast.Slice(lower=None, upper=None, step=None), _idx_ast(ix)], ctx=ast.Load()), ctx=ast.Load())
            return None
        if isinstance(seq, ast.BinOp) and isinstance(seq.op, ast.Add) and isinstance(seq.left, ast.List) and not any(isinstance(x, ast.Starred) for x in seq.left.elts):
            seq = ast.List(elts=[*seq.left.elts, ast.Starred(value=seq.right, ctx=ast.Load())], ctx=ast.Load())
        if isinstance(seq, (ast.List, ast.Tuple)):
            head = 0
            while head < len(seq.elts) and not isinstance(seq.elts[head], ast.Starred):
                head += 1
            if name is None and c < head:
                return seq.elts[c]
            if c >= head and head == len(seq.elts) - 1:  # [a, b, *rest]: element head + i is rest[i]
                return self.sub(seq.elts[head].value, (name, c - head))
            return None
        if isinstance(seq, ast.Call) and isinstance(seq.func, ast.Name) and seq.func.id in ("list", "tuple") and len(seq.args) == 1 and not seq.keywords:
            return self.sub(seq.args[0], ix)
        if isinstance(seq, (ast.ListComp, ast.GeneratorExp)) and len(seq.generators) == 1:
            b = self._binding(seq.generators[0], ix)
            return None if b is None else self.visit(_subst(seq.elt, b))
        if self.evaluations and isinstance(seq, ast.Call) and last_attr(seq) == "execute" and isinstance(seq.func, ast.Attribute) and len(seq.args) == 1 and not seq.keywords:
            # CallableParallelExecution(functions).execute(tasks)[i] is functions[i](tasks[i])
            return ast.Call(func=ast.Name(id="F", ctx=ast.Load()), args=[self.sub(seq.args[0], ix)], keywords=[])
        return None

    def visit_Subscript(self, node):  # noqa: N802
        self.generic_visit(node)
        if isinstance(node.slice, (ast.Slice, ast.Tuple)):
            return node
        ix = _idx(node.slice)
        if ix is None:
            return node
        return self.sub(node.value, ix)

    def visit_Call(self, node):  # noqa: N802
        self.generic_visit(node)
        if self.evaluations and dotted(node.func) == "self.f_pointer" and len(node.args) == 1 and not isinstance(node.args[0], ast.Starred):
            return ast.Call(func=ast.Name(id="F", ctx=ast.Load()), args=[node.args[0]], keywords=[])
        return node

class _Resolved:
    """The resolved forms of the expressions of one function."""

    def __init__(self, func: ast.AST, facts: dict | None = None):
        from gv.astutil import parents_map
        from gv.dataflow import SymValues

        self.func = specialise(func, facts) if facts else func
        self.sv = SymValues(self.func, max_len=4000)
        self.parents = parents_map(self.func)

    def _texts(self, e: ast.AST) -> list[ast.AST]:
        if self.sv.cfg.has(e):
            n = self.sv.cfg.node_of(e)
            if n == self.sv.cfg.entry or self.sv.cfg.reachable(self.sv.cfg.entry, n):
                return self.sv.exprs(e)
        return [e]

    def _loop_bindings(self, node: ast.AST) -> dict:
        """Loop variables in scope at ``node`` that stand for the element ``k`` of a sequence (``enumerate``)."""
        out: dict = {}
        child, cur = node, self.parents.get(id(node))
        r = _Resolver(False)
        while cur is not None and cur is not self.func:
            gens = []
            if isinstance(cur, ast.For) and any(child is s for s in cur.body):
                gens = [ast.comprehension(target=cur.target, iter=cur.iter, ifs=[], is_async=0)]
            elif isinstance(cur, (ast.ListComp, ast.GeneratorExp, ast.SetComp)) and child is cur.elt and len(cur.generators) == 1:
                gens = cur.generators
            for g in gens:
                t, it = g.target, g.iter
                if g.ifs or not (isinstance(t, ast.Tuple) and all(isinstance(x, ast.Name) for x in t.elts) and isinstance(it, ast.Call) and isinstance(it.func, ast.Name)):
                    continue
                if len(t.elts) == 2 and _is_call(it, "enumerate"):
                    pairs = [(t.elts[1].id, it.args[0], t.elts[0].id)]
                elif _is_call(it, "zip", len(t.elts)):
                    # the names zipped together are the elements of the same (anonymous) position
                    pairs = [(x.id, a, "k_" + "_".join(y.id for y in t.elts)) for x, a in zip(t.elts, it.args)]
                else:
                    continue
                for var, seq, k in pairs:
                    seqs = self._texts(seq)
                    if len(seqs) == 1 and var not in out:
                        out[var] = r.sub(r.visit(_subst(seqs[0], {})), (k, 0))
            child, cur = cur, self.parents.get(id(cur))
        return out

    def of(self, node: ast.AST, evaluations: bool) -> list[ast.AST]:
        b = self._loop_bindings(node)
        out = []
        for alt in self._texts(node):
            for _ in range(3):  # a loop variable may stand for an expression of the variables of an outer loop
                if not (b and names_in(alt) & set(b)):
                    break
                alt = _subst(alt, b)
            out.append(ast.fix_missing_locations(_Resolver(evaluations).visit(_subst(alt, {}))))
        return out

    def quotients(self) -> list[ast.BinOp]:
        """The divisions that are not by a constant / of a count."""
        return [n for n in ast.walk(self.func) if isinstance(n, ast.BinOp) and isinstance(n.op, ast.Div) and not isinstance(n.right, ast.Constant) and not (isinstance(n.left, ast.Call) and dotted(n.left.func) == "len") and self.sv.cfg.has(n)]


def _column(e: ast.AST):
    """k of ``input_perturbations[:, k]`` (None otherwise)."""
    if isinstance(e, ast.Subscript) and dotted(e.value) in _MATRICES and isinstance(e.slice, ast.Tuple) and len(e.slice.elts) == 2:
        rows, col = e.slice.elts
        if isinstance(rows, ast.Slice) and rows.lower is None and rows.upper is None and rows.step is None:
            ix = _idx(col)
            return ix if ix and ix[0] and ix[1] == 0 else None
    return None


def _evaluated_at(e: ast.AST):
    return e.args[0] if isinstance(e, ast.Call) and dotted(e.func) == "F" and len(e.args) == 1 else None


def _commuted(e: ast.AST) -> ast.AST:
    """``a + b`` of two non-literal operands in one order (array addition commutes; list literals are left alone)."""

    class C(ast.NodeTransformer):
        def visit_BinOp(self, node):  # noqa: N802
            self.generic_visit(node)
            seqs = (ast.List, ast.Tuple, ast.ListComp, ast.Constant, ast.JoinedStr)
            if isinstance(node.op, ast.Add) and not isinstance(node.left, seqs) and not isinstance(node.right, seqs) and _idx(node) is None and unparse(node.left) > unparse(node.right):
                node.left, node.right = node.right, node.left
            return node

    return C().visit(_subst(e, {}))


def _renamed(e: ast.AST, name: str | None) -> str:
    return norm_stmt(_commuted(_subst(e, {name: ast.Name(id="K", ctx=ast.Load())}) if name else e), 2000)


def _step_index(alts: list[ast.AST]):
    """k of the denominator ``step[k]``."""
    if len(alts) == 1 and isinstance(alts[0], ast.Subscript) and dotted(alts[0].value) == "step":
        ix = _idx(alts[0].slice)
        if ix and ix[0] and ix[1] == 0:
            return ix[0]
    return None


STEP_ARRAY = {"step is None": False, "isinstance(step, ndarray)": True}  # the quotient routines make it so first


def _half(e: ast.AST):
    """(array text, "first" | "second", h) of ``a[:h]`` and of ``a[h:2 * h]`` / ``a[h:]``."""
    if not (isinstance(e, ast.Subscript) and isinstance(e.slice, ast.Slice) and e.slice.step is None):
        return None
    lo, up = e.slice.lower, e.slice.upper
    if (lo is None or const_value(lo, None) == 0) and up is not None:
        return (norm_stmt(e.value), "first", norm_stmt(up))
    if lo is not None:
        h = norm_stmt(lo)
        # zip() stops with the first half, so an open second half is the same pairing
        if up is None or norm_stmt(up) in (f"2 * {h}", f"{h} * 2", f"{h} + {h}"):
            return (norm_stmt(e.value), "second", h)
    return None


def check_twins(ctx: Ctx) -> None:
    # FirstOrderFD
    res = {}
    for meth in ("_compute_grad", "_compute_parallel_grad"):
        con = cname(FD, "FirstOrderFD", meth)
        R = _Resolved(ctx.index.method(FD, "FirstOrderFD", meth), STEP_ARRAY)
        qs = R.quotients()
        ctx.need(len(qs) == 1, f"FirstOrderFD.{meth}: difference quotient not found")
        q = qs[0]
        den = R.of(q.right, False)
        k = _step_index(den)
        nums = R.of(q.left, True)
        num = nums[0] if len(nums) == 1 else None
        plus = minus = None
        if isinstance(num, ast.BinOp) and isinstance(num.op, ast.Sub):
            plus, minus = _evaluated_at(num.left), _evaluated_at(num.right)
        col = _column(plus) if plus is not None else None
        ok = col is not None and dotted(minus) == "input_values" and len(den) == 1 and isinstance(den[0], ast.Subscript) and dotted(den[0].value) == "step"
        ctx.ob("16.2-quotient", con, ok, f"forward difference: (f(x + h e_k) - f(x)) / h_k; found `{norm_stmt(num, 120)}` / `{norm_stmt(den[0] if den else None, 40)}` (outputs resolved to the points they are evaluated at)", node=q)
        # the perturbed output belongs to the same perturbation index as the step
        ok = col is not None and k is not None and col == (k, 0)
        ctx.ob("16.2-pairing", con, ok, "the perturbed output and the step must belong to the same perturbation", node=q)
        res[meth] = (R, q, _renamed(num, k) + " / " + "; ".join(_renamed(d, k) for d in den) if num is not None else None, k)
    (Rs, qs_, ts, _), (Rp, qp_, tp, kp) = res["_compute_grad"], res["_compute_parallel_grad"]
    ctx.ob("16.2-twin", cname(FD, "FirstOrderFD", "_compute_parallel_grad"), ts is not None and ts == tp, f"the parallel variant computes `{norm_stmt(qp_, 80)}` (resolved: `{(tp or '?')[:160]}`) while the serial one computes `{norm_stmt(qs_, 80)}` (resolved: `{(ts or '?')[:160]}`)", node=qp_)
    # parallel: outputs[k + 1] pairs with perturbation k (output 0 is the unperturbed point)
    con = cname(FD, "FirstOrderFD", "_compute_parallel_grad")
    p = Rp.func
    nums = Rp.of(qp_.left, False)
    num = nums[0] if len(nums) == 1 and isinstance(nums[0], ast.BinOp) and isinstance(nums[0].op, ast.Sub) else None

    def output(e):
        return _idx(e.slice) if isinstance(e, ast.Subscript) and isinstance(e.value, ast.Call) and last_attr(e.value) == "execute" and not isinstance(e.slice, (ast.Slice, ast.Tuple)) else None

    ok = num is not None and kp is not None and output(num.left) == (kp, 1)
    ctx.ob("16.2-pairing", con, ok, "in the parallel variant the outputs are [f(x), f(x+h e_0), ...]: perturbation k is output k + 1", node=qp_, stmt="perturbation k is output k + 1")
    ex = [c for c in walk_body(p) if isinstance(c, ast.Call) and last_attr(c) == "execute" and isinstance(c.func, ast.Attribute)]
    ok = len(ex) == 1 and len(ex[0].args) == 1
    if ok:
        tasks = Rp.of(ex[0].args[0], False)
        r = _Resolver(False)
        ok = len(tasks) == 1 and dotted(r.sub(tasks[0], (None, 0))) == "input_values" and _column(r.sub(_subst(tasks[0], {}), ("j_", 1))) == ("j_", 0)
    ctx.ob("16.2-pairing", con, ok, "the tasks must be [x, *perturbed points], in this order", node=(ex or [p])[0], stmt="tasks = [x, *perturbed]")
    ok = num is not None and output(num.right) == (None, 0)
    ctx.ob("16.2-pairing", con, ok, "the unperturbed output is output 0", node=qp_, stmt="the unperturbed output is output 0")
    # ComplexStep
    res = {}
    for meth in ("_compute_grad", "_compute_parallel_grad"):
        con = cname(CS, "ComplexStep", meth)
        R = _Resolved(ctx.index.method(CS, "ComplexStep", meth))
        qs = R.quotients()
        ctx.need(len(qs) == 1, f"ComplexStep.{meth}: quotient not found")
        q = qs[0]
        den = R.of(q.right, False)
        k = _step_index(den)
        nums = R.of(q.left, True)
        num = nums[0] if len(nums) == 1 else None
        point = _evaluated_at(num.value) if isinstance(num, ast.Attribute) and num.attr == "imag" else None
        ok = isinstance(point, ast.BinOp) and isinstance(point.op, ast.Add)
        if ok:
            cols = [c for c in (_column(point.left), _column(point.right)) if c is not None]
            ok = len(cols) == 1 and "input_values" in (dotted(point.left), dotted(point.right)) and (k is None or cols[0] == (k, 0))
        ctx.ob("16.2-quotient", con, ok, f"complex step: the function is evaluated at x + i h_k e_k (column k of the perturbations); found `{norm_stmt(num, 120)}`", node=q)
        ctx.ob("16.2-pairing", con, bool(ok) and k is not None, "the perturbed output and the step must belong to the same perturbation: Im f(x + i h_k e_k) / h_k", node=q)
        res[meth] = (q, num, den, k)
    (qs_, ns, ds, ks), (qp_, np_, dp, kp) = res["_compute_grad"], res["_compute_parallel_grad"]
    ok = ns is not None and np_ is not None and isinstance(ns, ast.Attribute) and ns.attr == "imag" and isinstance(np_, ast.Attribute) and np_.attr == "imag"
    ok = ok and [_renamed(d, ks) for d in ds] == [_renamed(d, kp) for d in dp] and _renamed(ns, ks) == _renamed(np_, kp)
    ctx.ob("16.2-twin", cname(CS, "ComplexStep", "_compute_parallel_grad"), ok, f"serial and parallel complex-step quotients differ: `{norm_stmt(ns, 80)}`/`{norm_stmt(qs_.right, 60)}` vs `{norm_stmt(np_, 80)}`/`{norm_stmt(qp_.right, 60)}`", node=qp_.right)
    # CenteredDifferences
    from gv.dataflow import SymValues

    for meth in ("_compute_grad", "_compute_parallel_grad"):
        f = ctx.index.method(CD, "CenteredDifferences", meth)
        con = cname(CD, "CenteredDifferences", meth)
        zips = [c for c in ast.walk(f) if isinstance(c, ast.Call) and dotted(c.func) == "zip"]
        halves: dict[str, tuple] = {}
        ok_pairs = len(zips) == 1
        if ok_pairs:
            # the loop / comprehension over the zip binds one name per zipped half
            owner = [g for n_ in ast.walk(f) for g in (n_.generators if isinstance(n_, (ast.ListComp, ast.GeneratorExp)) else [n_] if isinstance(n_, ast.For) else []) if g.iter is zips[0]]
            hs = [_half(a) for a in zips[0].args]
            ok_pairs = len(owner) == 1 and isinstance(owner[0].target, ast.Tuple) and len(owner[0].target.elts) == len(hs) and all(isinstance(t, ast.Name) for t in owner[0].target.elts) and all(hs) and len({h[2] for h in hs}) == 1
            if ok_pairs:
                halves = {t.id: h for t, h in zip(owner[0].target.elts, hs)}
                arrays = {h[0] for h in hs}
                ok_pairs = all(sorted(h[1] for h in hs if h[0] == a) == ["first", "second"] for a in arrays)
        num, den = _quotient_shape(f)
        sv = SymValues(f)

        def point(e):
            """The zipped name whose point an output belongs to: f(name) or the output zipped with it."""
            if isinstance(e, ast.Call) and len(e.args) == 1 and sv.cfg.has(e.func) and sv.texts(e.func) == ["self.f_pointer"]:
                return dotted(e.args[0])
            if isinstance(e, ast.Name) and e.id in halves and halves[e.id][0] != "input_perturbations":
                same = [n_ for n_, h in halves.items() if h[0] == "input_perturbations" and h[1] == halves[e.id][1]]
                return same[0] if len(same) == 1 else None
            return None

        ok = ok_pairs and isinstance(num, ast.BinOp) and isinstance(num.op, ast.Sub) and isinstance(den, ast.Call) and dotted(den.func) == "norm" and len(den.args) == 1 and isinstance(den.args[0], ast.BinOp) and isinstance(den.args[0].op, ast.Sub)
        if ok:
            xp, xm = point(num.left), point(num.right)
            ok = xp in halves and xm in halves and halves[xp][:2] == ("input_perturbations", "first") and halves[xm][:2] == ("input_perturbations", "second") and {dotted(den.args[0].left), dotted(den.args[0].right)} == {xp, xm}
        ctx.ob("16.2-quotient", con, ok, "centred difference: (f(x+) - f(x-)) / ||x+ - x-||", node=num if num is not None else f)
        ctx.ob("16.2-pairing", con, ok_pairs, "the first half of the perturbations (x+) must be paired with the second half (x-), inputs and outputs alike", node=(zips or [f])[0])


def check_placement(ctx: Ctx) -> None:
    f = ctx.index.method(DA, "DisciplineJacApprox", "compute_approx_jac")
    con = cname(DA, "DisciplineJacApprox", "compute_approx_jac")
    st = [s for s in stmts_of(f) if isinstance(s, ast.Assign) and isinstance(s.targets[0], ast.Subscript) and dotted(s.targets[0].value) == "flat_jac_complete"]
    # all the rows: `:` or, the array being 2-D (next rule), `...`
    ok = len(st) == 1 and isinstance(st[0].targets[0].slice, ast.Tuple) and len(st[0].targets[0].slice.elts) == 2 and (isinstance(st[0].targets[0].slice.elts[0], ast.Slice) or const_value(st[0].targets[0].slice.elts[0], None) is Ellipsis) and dotted(st[0].targets[0].slice.elts[1]) == "x_indices" and dotted(st[0].value) == "flat_jac"
    ctx.ob("16.3-placement", con, ok, "the partial Jacobian must fill the columns of the differentiated components: flat_jac_complete[:, x_indices] = flat_jac", node=(st or [f])[0])
    z = [s for s in stmts_of(f) if isinstance(s, ast.Assign) and dotted(s.targets[0]) == "flat_jac_complete" and isinstance(s.value, ast.Call) and last_attr(s.value) == "zeros"]
    ok = len(z) == 1
    if ok:
        shape = z[0].value.args[0] if z[0].value.args else kwarg(z[0].value, "shape")
        ok = isinstance(shape, (ast.List, ast.Tuple)) and len(shape.elts) == 2
    if ok:
        # rows: the outputs (their sizes summed, or the rows of the partial Jacobian that is placed); columns: the
        # inputs (their sizes summed, or the length of the vector that is differentiated)
        grads = [c for c in walk_body(f) if isinstance(c, ast.Call) and last_attr(c) == "f_gradient" and c.args]
        x = dotted(grads[0].args[0]) if len(grads) == 1 else None
        placed = dotted(st[0].value) if len(st) == 1 else None
        rows, cols = (norm_stmt(e) for e in shape.elts)
        ok = ("data_names_to_sizes" in rows or (placed is not None and rows in (f"{placed}.shape[0]", f"len({placed})"))) and ("input_names_to_sizes" in cols or (x is not None and cols in (f"{x}.size", f"len({x})", f"{x}.shape[0]")))
    ctx.ob("16.3-placement", con, ok, "the complete Jacobian is (sum of output sizes) x (sum of input sizes), zero outside the differentiated columns", node=(z or [f])[0])
    cfg = cfg_of(f)
    if st:
        conds = [(norm_stmt(cfg.ast[t].test), v) for t, v in branch_conditions(cfg, cfg.node_of(st[0])) if cfg.kind[t] == "test" and "x_indices" in norm_stmt(cfg.ast[t].test)]
        ctx.ob("16.3-placement", con, conds in ([("not x_indices", False)], [("x_indices", True)]), "the placement applies iff a subset of components is requested", node=st[0], stmt="placement iff x_indices")
    call = [c for c in walk_body(f) if isinstance(c, ast.Call) and last_attr(c) == "f_gradient"]
    ok = len(call) == 1 and dotted(kwarg(call[0], "x_indices")) == "x_indices" and dotted(kwarg(call[0], "step")) == "step"
    ctx.ob("16.3-placement", con, ok, "the approximator must be asked for the same components that are placed", node=(call or [f])[0])
    g = ctx.index.method(BA, "BaseGradientApproximator", "f_gradient")
    gen = [c for c in walk_body(g) if isinstance(c, ast.Call) and last_attr(c) == "generate_perturbations"]
    ok = len(gen) == 1 and dotted(kwarg(gen[0], "x_indices")) == "x_indices" and dotted(kwarg(gen[0], "step")) == "step"
    ctx.ob("16.3-placement", cname(BA, "BaseGradientApproximator", "f_gradient"), ok, "f_gradient forwards the component subset and the step to the perturbation generator", node=(gen or [g])[0])
    from gv.dataflow import SymValues

    svg = SymValues(g)
    comp = [c for c in walk_body(g) if isinstance(c, ast.Call) and svg.cfg.has(c) and any("_compute_grad" in t_ or "_compute_parallel_grad" in t_ for t_ in svg.texts(c.func))]
    ok = bool(comp) and gen  # one call, or one per branch of `if self._parallel`
    if ok:
        unp = [s for s in stmts_of(g) if isinstance(s, ast.Assign) and s.value is gen[0]]
        ok = len(unp) == 1 and isinstance(unp[0].targets[0], ast.Tuple) and all([dotted(a) for a in c_.args[:3]] == [g.args.args[1].arg, *[dotted(e) for e in unp[0].targets[0].elts]] for c_ in comp)
    ctx.ob("16.3-placement", cname(BA, "BaseGradientApproximator", "f_gradient"), bool(ok), "the quotient routine receives x, the perturbations and the steps returned by the generator", node=(comp or [g])[0])
    # the routine that is CALLED, unfolded under each value of the option (conditional expression, if statement, ...)
    ok = bool(comp)
    for fact, want in ((True, "self._compute_parallel_grad"), (False, "self._compute_grad")):
        called = []  # what the calls that run under this value of the option call
        for c0 in comp:
            loc = (c0.lineno, c0.col_offset, c0.end_lineno, c0.end_col_offset)
            alts = unfolded(g, rules.enclosing_stmt(g, c0), {"self._parallel": fact}, get=lambda st_: next((n_.func for n_ in ast.walk(st_) if isinstance(n_, ast.Call) and (n_.lineno, n_.col_offset, n_.end_lineno, n_.end_col_offset) == loc), None))
            if alts is not None:
                called.append([norm_stmt(a_) for a_ in alts])
        ok = ok and called == [[want]]
    ctx.ob("16.2-twin", cname(BA, "BaseGradientApproximator", "f_gradient"), bool(ok), "the parallel routine is used iff parallel execution is requested", node=(comp or [g])[0], stmt="compute = parallel routine iff self._parallel")
    h = ctx.index.method(BA, "BaseGradientApproximator", "generate_perturbations")
    dflt = [s for s in stmts_of(h) if isinstance(s, ast.Assign) and dotted(s.targets[0]) == "x_indices"]
    n_, x_ = h.args.args[1].arg, h.args.args[2].arg  # the dimension and the vector it is the length of
    full_ranges = {f"{fn}({d})" for fn in ("range", "arange") for d in (n_, f"len({x_})", f"{x_}.size", f"{x_}.shape[0]")}
    ok = len(dflt) == 1 and (norm_stmt(dflt[0].value) in full_ranges or any(norm_stmt(dflt[0].value) == f"list({r_})" for r_ in full_ranges))
    ctx.ob("16.3-placement", cname(BA, "BaseGradientApproximator", "generate_perturbations"), ok, "without a subset all the components are differentiated, in order", node=(dflt or [h])[0])


def _signed_step(e: ast.AST) -> int | None:
    if dotted(e) == "step":
        return 1
    if isinstance(e, ast.UnaryOp) and isinstance(e.op, ast.USub) and dotted(e.operand) == "step":
        return -1
    if isinstance(e, ast.Constant) and e.value == 0:
        return 0
    return None


def _exceeds(func: ast.AST, test: ast.AST, bound: str, sign: int) -> bool | None:
    """True if `test` is (equivalent to) "x + sign*step lies beyond the bound", False if it is its negation.

    Subscripted arrays are taken component-wise: `a[...]` is the symbol `a`; single-definition locals are inlined.
    """
    import sympy as sp

    defs = {}
    for st in stmts_of(func):
        if isinstance(st, ast.Assign) and isinstance(st.targets[0], ast.Name):
            defs.setdefault(st.targets[0].id, []).append(st.value)

    def term(e, depth=0):
        if isinstance(e, ast.Subscript):
            return term(e.value, depth)
        if isinstance(e, ast.Name):
            # a local holding the bounds, whatever its name: every definition of it reads the getter (possibly
            # through a re-assignment of itself: `b = normalize_vect(b)`)
            got = {g_ for d_ in defs.get(e.id, ()) for g_ in ("upper_bounds", "lower_bounds") if any(isinstance(c_, ast.Call) and last_attr(c_) == "get_" + g_ for c_ in ast.walk(d_))}
            if len(got) == 1 and e.id not in ("step", "lower_bounds", "upper_bounds") and all(any(isinstance(c_, ast.Call) and last_attr(c_) == "get_" + next(iter(got)) for c_ in ast.walk(d_)) or e.id in names_in(d_) for d_ in defs[e.id]):
                return sp.Symbol(next(iter(got)), real=True)
            if e.id not in ("step", bound, "lower_bounds", "upper_bounds") and len(defs.get(e.id, ())) == 1 and depth < 3 and isinstance(defs[e.id][0], (ast.BinOp, ast.Subscript, ast.Name)):
                return term(defs[e.id][0], depth + 1)
            return sp.Symbol("x" if e.id in ("input_perturbations", "input_values") else e.id, real=True)
        if isinstance(e, ast.Constant) and isinstance(e.value, (int, float)):
            return sp.nsimplify(e.value)
        if isinstance(e, ast.UnaryOp) and isinstance(e.op, ast.USub):
            v = term(e.operand, depth)
            return None if v is None else -v
        if isinstance(e, ast.BinOp) and isinstance(e.op, (ast.Add, ast.Sub)):
            l, r = term(e.left, depth), term(e.right, depth)
            return None if l is None or r is None else (l + r if isinstance(e.op, ast.Add) else l - r)
        return None

    negate = False
    while isinstance(test, ast.UnaryOp) and isinstance(test.op, ast.Not):
        test, negate = test.operand, not negate
    if isinstance(test, ast.Name) and len(defs.get(test.id, ())) == 1:
        test = defs[test.id][0]
    if not (isinstance(test, ast.Compare) and len(test.ops) == 1):
        return None
    l, r = term(test.left), term(test.comparators[0])
    if l is None or r is None:
        return None
    x, step, ub = sp.Symbol("x", real=True), sp.Symbol("step", real=True), sp.Symbol(bound, real=True)
    d = sp.simplify(l - r - sign * ((x + sign * step) - ub))
    op = type(test.ops[0])
    res = None
    if d == 0:  # l - r == sign * (forward point - bound)
        res = True if op in (ast.Gt, ast.GtE) else (False if op in (ast.Lt, ast.LtE) else None)
    elif sp.simplify(l - r + sign * ((x + sign * step) - ub)) == 0:
        res = True if op in (ast.Lt, ast.LtE) else (False if op in (ast.Gt, ast.GtE) else None)
    if res is None:
        return None
    return (not res) if negate else res


def check_flip_centered(ctx: Ctx) -> None:
    """16.4 for centered differences: a side whose point would leave the design space is not taken."""
    f = ctx.index.method(CD, "CenteredDifferences", "_generate_perturbations")
    con = cname(CD, "CenteredDifferences", "_generate_perturbations")
    wh = [s_ for s_ in stmts_of(f) if isinstance(s_, ast.Assign) and isinstance(s_.value, ast.Call) and last_attr(s_.value) == "where" and len(s_.value.args) == 3]
    sides = {}
    for w in wh:
        c, a, b = w.value.args
        for bound, sign in (("upper_bounds", 1), ("lower_bounds", -1)):
            e = _exceeds(f, c, bound, sign)
            if e is True and _signed_step(a) == 0 and _signed_step(b) == sign:
                sides[bound] = w
            elif e is False and _signed_step(b) == 0 and _signed_step(a) == sign:
                sides[bound] = w
    ctx.ob("16.4-flip", con, "upper_bounds" in sides, "the forward point x + step is taken only where it does not exceed the upper bound (step 0 there)", node=(wh or [f])[0], stmt="forward side dropped iff x + step > upper bound")
    ctx.ob("16.4-flip", con, "lower_bounds" in sides, "the backward point x - step is taken only where it does not go below the lower bound (step 0 there)", node=(wh or [f])[-1], stmt="backward side dropped iff x - step < lower bound")
    # the bounds compared with the differentiated components are those of the same components
    for w in wh:
        c = w.value.args[0]
        if isinstance(c, ast.Compare):
            # decided on the unfolded comparison: the restriction to the differentiated components may have been
            # applied to the local holding the bounds (`ub = ub[input_indices]`) before the comparison
            alts = [a_ for a_ in (unfolded(f, w, get=lambda st: st.value.args[0]) or []) if isinstance(a_, ast.Compare)] or [c]
            ok = True
            for a_ in alts:
                sides_ = [a_.left, a_.comparators[0]]
                idx = [any(isinstance(n_, ast.Name) and n_.id == "input_indices" for n_ in ast.walk(x_)) for x_ in sides_]
                has_bound = [any(b_ in norm_stmt(x_, 2000) for b_ in ("upper_bounds", "lower_bounds")) for x_ in sides_]
                ok = ok and all(i_ for i_, hb in zip(idx, has_bound) if hb) and any(has_bound)
            ctx.ob("16.1-kinds", con, ok, "the differentiated components (one per perturbation) are compared with the bounds of ALL the components: for a subset of components the shapes do not match", node=w, stmt=f"bounds of the differentiated components in `{norm_stmt(c, 60)}`")


def check_flip(ctx: Ctx) -> None:
    f = ctx.index.method(FD, "FirstOrderFD", "_generate_perturbations")
    con = cname(FD, "FirstOrderFD", "_generate_perturbations")
    cfg = cfg_of(f)
    # the flip is the where(...) that chooses between +step and -step (other where(...) calls, e.g. on the bounds, are not it)
    def is_flip(s):
        return isinstance(s, ast.Assign) and isinstance(s.value, ast.Call) and last_attr(s.value) == "where" and len(s.value.args) == 3 and _signed_step(s.value.args[1]) in (1, -1) and _signed_step(s.value.args[2]) in (1, -1)

    wh = [s for s in stmts_of(f) if is_flip(s)]
    ctx.need(len(wh) == 1, "FirstOrderFD._generate_perturbations: where(...) flip not found")
    c, a, b = wh[0].value.args
    ok = _exceeds(f, c, "upper_bounds", +1) is True and _signed_step(a) == -1 and _signed_step(b) == 1
    if not ok:
        ok = _exceeds(f, c, "upper_bounds", +1) is False and _signed_step(a) == 1 and _signed_step(b) == -1
    ctx.ob("16.4-flip", con, ok, "the step must be -step exactly where the FORWARD point x + step would exceed the upper bound, and +step elsewhere: testing only `x >= ub` lets a component closer to the bound than the step leave the design space", node=wh[0], stmt="flip iff x + step > upper bound")
    add = [s for s in stmts_of(f) if isinstance(s, ast.AugAssign) and isinstance(s.op, ast.Add) and dotted(s.value) == dotted(wh[0].targets[0])]
    ok = len(add) == 1 and cfg.reachable(cfg.node_of(wh[0]), cfg.node_of(add[0]))
    ctx.ob("16.4-flip", con, ok, "the flipped steps are the ones added to the perturbed components", node=(add or [wh[0]])[0])
    rets = [s for s in stmts_of(f) if isinstance(s, ast.Return) and isinstance(s.value, ast.Tuple) and dotted(s.value.elts[1]) == dotted(wh[0].targets[0])]
    ctx.ob("16.4-flip", con, len(rets) == 1, "the flipped steps are the ones the quotient divides by", node=(rets or [f])[0], stmt="generator returns the flipped steps")
    # the bounds the flip compares with, unfolded under each value of the normalisation option
    from gv.dataflow import SymValues
    from gv.shapes import specialise

    ok = True
    ub = []
    for fact in (True, False):
        g = specialise(f, {"self._normalize": fact})
        sv = SymValues(g)
        wg = [s_ for s_ in stmts_of(g) if is_flip(s_) and sv.cfg.has(s_)]
        if len(wg) != 1:
            ok = False
            continue
        for alt in sv.exprs(wg[0].value.args[0]):
            calls = [c_ for c_ in ast.walk(alt) if isinstance(c_, ast.Call) and last_attr(c_) in ("get_upper_bounds", "normalize_vect")]
            getters = [c_ for c_ in calls if last_attr(c_) == "get_upper_bounds"]
            norms = [c_ for c_ in calls if last_attr(c_) == "normalize_vect" and any(isinstance(x_, ast.Call) and last_attr(x_) == "get_upper_bounds" for x_ in ast.walk(c_.args[0] if c_.args else c_))]
            if not getters or bool(norms) != fact or (fact and len(norms) != len(getters)):
                ok = False
    ub = [s_ for s_ in stmts_of(f) if isinstance(s_, ast.Assign) and dotted(s_.targets[0]) == "upper_bounds"]
    ctx.ob("16.4-normalised-bounds", con, ok, "the upper bounds compared with the (normalised) point must be normalised iff the approximator works on normalised inputs", node=wh[0], stmt="upper bounds normalised iff inputs are")


DA = "utils/derivatives/derivatives_approx.py"


def _step_signs(e: ast.AST, sign: int = 1) -> list[int]:
    """The signs with which the terms that mention the step enter the sum ``e`` (component-wise: ``a[...]`` is ``a``):
    [1] for ``x + step`` / ``step + x`` / ``x - -step``, [-1] for ``x - step`` / ``x + (-step)`` / ``x + -1 * step``."""
    if isinstance(e, ast.BinOp) and isinstance(e.op, (ast.Add, ast.Sub)):
        return _step_signs(e.left, sign) + _step_signs(e.right, sign if isinstance(e.op, ast.Add) else -sign)
    if isinstance(e, ast.UnaryOp) and isinstance(e.op, (ast.USub, ast.UAdd)):
        return _step_signs(e.operand, -sign if isinstance(e.op, ast.USub) else sign)
    if isinstance(e, ast.BinOp) and isinstance(e.op, ast.Mult):
        for k_, o_ in ((e.left, e.right), (e.right, e.left)):
            neg = isinstance(k_, ast.UnaryOp) and isinstance(k_.op, ast.USub)
            c_ = const_value(k_.operand if neg else k_, None)
            if isinstance(c_, (int, float)) and not isinstance(c_, bool) and c_ != 0:
                return _step_signs(o_, sign * (1 if (c_ > 0) != neg else -1))
    if isinstance(e, ast.Subscript):
        return _step_signs(e.value, sign)
    return [sign] if "step" in norm_stmt(e, 400) else []


def check_bound_sources(ctx: Ctx) -> None:
    """16.4: the forward point is compared with the UPPER bounds and the backward point with the LOWER bounds, both
    normalised iff the approximator works on normalised inputs (decided on the unfolded comparison, under each value
    of the option)."""
    for rel, clsn in ((FD, "FirstOrderFD"), (CD, "CenteredDifferences")):
        f = ctx.index.method(rel, clsn, "_generate_perturbations")
        con = cname(rel, clsn, "_generate_perturbations")
        wh = [s_ for s_ in stmts_of(f) if isinstance(s_, ast.Assign) and isinstance(s_.value, ast.Call) and last_attr(s_.value) == "where" and len(s_.value.args) == 3 and isinstance(s_.value.args[0], ast.Compare)]
        ctx.need(wh, f"{clsn}._generate_perturbations: no where(<comparison>, ...) found")
        for w in wh:
            for fact in (True, False):
                alts = unfolded(f, w, {"self._normalize": fact}, get=lambda st: st.value.args[0])
                ok = bool(alts)
                why = ""
                for a_ in alts or []:
                    if not isinstance(a_, ast.Compare) or len(a_.ops) != 1:
                        ok = False
                        continue
                    l_, op, r_ = a_.left, type(a_.ops[0]), a_.comparators[0]
                    # which side holds the bound, and whether the moving point is the larger one
                    sides = {"l": norm_stmt(l_, 400), "r": norm_stmt(r_, 400)}
                    bside = "r" if "get_upper_bounds" in sides["r"] or "get_lower_bounds" in sides["r"] else "l"
                    btxt = sides[bside]
                    point = r_ if bside == "l" else l_
                    moves = _step_signs(point)
                    if len(moves) != 1:
                        continue  # not a comparison of a perturbed point (rule 16.4-flip decides on its form)
                    point_greater = moves[0] > 0
                    want, other = ("get_upper_bounds", "get_lower_bounds") if point_greater else ("get_lower_bounds", "get_upper_bounds")
                    if want not in btxt or other in btxt:
                        ok = False
                        why = f"the {'forward' if point_greater else 'backward'} point is compared with `{btxt[:80]}`"
                    if ("normalize_vect" in btxt) != fact:
                        ok = False
                        why = why or f"with normalize={fact} the bound is `{btxt[:80]}`"
                ctx.ob("16.4-bound-sources", con, ok, f"the forward point must be compared with the upper bounds and the backward point with the lower bounds, normalised iff the inputs are ({why}): compared with the wrong bound the side is dropped at interior points (one-sided scheme, first-order error) or kept beyond the bound", node=w, stmt=f"normalize={fact}: `{norm_stmt(w.value.args[0], 50)}` against its own bound")
    ctx.floor("16.4-bound-sources", 6)


_SIMPLE = (ast.Assign, ast.AugAssign, ast.AnnAssign, ast.Expr, ast.Return)


def _blocks(func: ast.AST):
    """Every statement list of the function (not those of nested scopes)."""
    todo = [func]
    while todo:
        n = todo.pop()
        for fld in ("body", "orelse", "finalbody"):
            b = getattr(n, fld, None)
            if isinstance(b, list) and b and isinstance(b[0], ast.stmt):
                yield b
                todo.extend(s for s in b if not isinstance(s, (ast.FunctionDef, ast.AsyncFunctionDef, ast.ClassDef)))
        todo.extend(getattr(n, "handlers", None) or [])


def _unconditional_walruses(e: ast.AST):
    """The ``x := v`` that the evaluation of ``e`` always executes, in evaluation order."""
    if isinstance(e, (ast.Lambda, ast.ListComp, ast.SetComp, ast.DictComp, ast.GeneratorExp, ast.IfExp)):
        if isinstance(e, ast.IfExp):
            yield from _unconditional_walruses(e.test)
        return
    if isinstance(e, ast.BoolOp):
        yield from _unconditional_walruses(e.values[0])
        return
    if isinstance(e, ast.Compare) and len(e.ops) > 1:
        yield from _unconditional_walruses(e.left)
        yield from _unconditional_walruses(e.comparators[0])
        return
    for c in ast.iter_child_nodes(e):
        yield from _unconditional_walruses(c)
    if isinstance(e, ast.NamedExpr) and isinstance(e.target, ast.Name):
        yield e


def _walrus_hoisted(func: ast.AST) -> ast.AST:
    """A copy of the function in which ``stmt(... (x := v) ...)`` is ``x = v; stmt(... x ...)`` when the simple
    statement always evaluates the walrus and does not read ``x`` before it (same bindings, same values)."""
    import copy

    if not any(isinstance(n, ast.NamedExpr) for n in ast.walk(func)):
        return func
    new = copy.deepcopy(func)
    for block in _blocks(new):
        k = 0
        while k < len(block):
            st = block[k]
            k += 1
            if not isinstance(st, _SIMPLE):
                continue
            for w in list(_unconditional_walruses(st)):
                x = w.target.id
                pos = (w.lineno, w.col_offset)
                stores = [n for n in ast.walk(st) if isinstance(n, ast.Name) and n.id == x and isinstance(n.ctx, ast.Store) and n is not w.target]
                early = [n for n in ast.walk(st) if isinstance(n, ast.Name) and n.id == x and isinstance(n.ctx, ast.Load) and (n.lineno, n.col_offset) < pos]
                if stores or early:
                    continue
                hoisted = ast.copy_location(ast.Assign(targets=[ast.Name(id=x, ctx=ast.Store())], value=w.value, lineno=st.lineno), st)
                ast.fix_missing_locations(hoisted)

                class R(ast.NodeTransformer):
                    def visit_NamedExpr(self, n):  # noqa: N802
                        if n is w:
                            return ast.copy_location(ast.Name(id=x, ctx=ast.Load()), n)
                        return self.generic_visit(n)

                R().visit(st)
                block.insert(k - 1, hoisted)
                k += 1
    return new


def _snapshot_as_cursor(func: ast.AST) -> ast.AST:
    """A copy of the function in which the loop body ``...; lo = c; ...; c += n; <uses of lo, none of c>`` is written
    ``...; ...; <uses of c>; c += n``: the start of the window saved in a local that nothing else writes, the cursor
    advanced at once and not read again in the iteration, is the cursor advanced at the end of the iteration."""
    import copy

    new = copy.deepcopy(func)
    changed = False
    for loop in [n for n in ast.walk(new) if isinstance(n, ast.For)]:
        body = loop.body
        for i, cp in enumerate(body):
            if not (isinstance(cp, ast.Assign) and len(cp.targets) == 1 and isinstance(cp.targets[0], ast.Name) and isinstance(cp.value, ast.Name)):
                continue
            lo, c = cp.targets[0].id, cp.value.id
            js = [j for j in range(i + 1, len(body)) if (u := as_update(body[j])) and isinstance(u[0], ast.Name) and u[0].id == c and isinstance(u[1], ast.Add)]
            if len(js) != 1 or lo == c:
                continue
            j = js[0]
            amount = as_update(body[j])[2]
            rest = body[j + 1 :]

            def names(stmts, ctx_, ids):
                return [n for s in stmts for n in ast.walk(s) if isinstance(n, ast.Name) and isinstance(n.ctx, ctx_) and n.id in ids]

            everywhere = [n for n in ast.walk(new) if isinstance(n, ast.Name) and n.id == lo]
            inside = {id(n) for s in body[i + 1 :] for n in ast.walk(s) if isinstance(n, ast.Name) and n.id == lo}
            if (
                names(body[i + 1 : j], ast.Store, {lo, c})
                or names(rest, (ast.Load, ast.Store, ast.Del), {c})
                or names(rest, (ast.Store, ast.Del), {lo} | names_in(amount))
                or c in names_in(amount)
                or lo in names_in(amount)
                or any(id(n) not in inside and n is not cp.targets[0] for n in everywhere)
                or any(isinstance(n, (ast.Continue, ast.Break, ast.Return, ast.Lambda, ast.FunctionDef, ast.Yield, ast.YieldFrom)) for s in body[i:] for n in ast.walk(s))
            ):
                continue
            renamed = [_subst(s, {lo: ast.Name(id=c, ctx=ast.Load())}) for s in (*body[i + 1 : j], *rest)]
            loop.body = [*body[:i], *renamed, body[j]]
            changed = True
            break
    return ast.fix_missing_locations(new) if changed else func


_MUTATORS = {"append", "extend", "insert", "pop", "remove", "clear", "sort", "reverse", "update", "add", "discard", "setdefault", "popitem"}


def _root(e: ast.AST):
    while isinstance(e, (ast.Subscript, ast.Attribute)):
        e = e.value
    return e.id if isinstance(e, ast.Name) else None


def _mutated_in_place(func: ast.AST) -> set:
    """Roots of the objects the function changes in place (``a.append(x)``, ``a[i] = x``, ``a[i] += x``, ``del a[i]``)."""
    out = set()
    for n in ast.walk(func):
        if isinstance(n, ast.Call) and isinstance(n.func, ast.Attribute) and n.func.attr in _MUTATORS:
            out.add(_root(n.func.value))
        elif isinstance(n, (ast.Subscript, ast.Attribute)) and isinstance(n.ctx, (ast.Store, ast.Del)):
            out.add(_root(n.value))
    return out - {None}


def _read_through_locals(func: ast.AST, e: ast.AST) -> set:
    """The names ``e`` reads, and those read by the definitions of the locals among them."""
    seen = set(names_in(e))
    todo = list(seen)
    while todo:
        x = todo.pop()
        for s in ast.walk(func):
            v = None
            if isinstance(s, ast.Assign) and any(isinstance(t, ast.Name) and t.id == x for t in s.targets):
                v = s.value
            elif isinstance(s, ast.NamedExpr) and isinstance(s.target, ast.Name) and s.target.id == x:
                v = s.value
            for y in names_in(v) if v is not None else ():
                if y not in seen:
                    seen.add(y)
                    todo.append(y)
    return seen


def _counted(e: ast.AST) -> ast.AST:
    """``len(<sequence built from n items>)`` reduced to ``n``: ``len(range(n))``, ``len(list(range(n)))``,
    ``len([f(i) for i in range(n)])`` are ``n`` (a size: not negative); ``len(list(s))`` is ``len(s)``."""
    if not (isinstance(e, ast.Call) and isinstance(e.func, ast.Name) and e.func.id == "len" and len(e.args) == 1 and not e.keywords):
        return e
    s = e.args[0]
    while True:
        if isinstance(s, ast.Call) and isinstance(s.func, ast.Name) and s.func.id in ("list", "tuple") and len(s.args) == 1 and not s.keywords and not isinstance(s.args[0], ast.Starred):
            s = s.args[0]
        elif isinstance(s, (ast.ListComp, ast.GeneratorExp)) and len(s.generators) == 1 and not s.generators[0].ifs and not s.generators[0].is_async:
            s = s.generators[0].iter
        else:
            break
    if isinstance(s, ast.Call) and isinstance(s.func, ast.Name) and s.func.id in ("range", "arange") and not s.keywords and not any(isinstance(a, ast.Starred) for a in s.args):
        if len(s.args) == 1:
            return s.args[0]
        if len(s.args) == 2 and const_value(s.args[0], None) == 0 and not isinstance(const_value(s.args[0], None), bool):
            return s.args[1]
    return e if s is e.args[0] else ast.copy_location(ast.Call(func=e.func, args=[s], keywords=[]), e)


def check_variable_indices(ctx: Ctx) -> None:
    """16.5: check_jacobian(indices=...) numbers the components of the flat input vector: the offset of a variable is
    the sum of the FULL sizes of the variables before it, whatever subset of their components is selected."""
    from gv.cursor import check_cursor_loops

    # spellings the cursor analysis does not read, rewritten into the ones it reads (both rewritings keep the values)
    f = _snapshot_as_cursor(_walrus_hoisted(ctx.index.method(DA, "DisciplineJacApprox", "_compute_variable_indices")))
    con = cname(DA, "DisciplineJacApprox", "_compute_variable_indices")
    check_cursor_loops(ctx, "16.5-indices", con, f, min_loops=1, force={"variable_position"})
    loops = [s_ for s_ in stmts_of(f) if isinstance(s_, ast.For)]
    ctx.need(loops, "_compute_variable_indices: loop over the variables not found")
    lp = loops[0]
    incs = [s_ for s_ in ast.walk(lp) if as_update(s_) and isinstance(as_update(s_)[1], ast.Add) and isinstance(as_update(s_)[0], ast.Name)]
    ctx.need(len(incs) == 1, "_compute_variable_indices: the advance of the offset was not found")
    sizes_par = f.args.args[-1].arg if f.args.args else "variable_sizes"
    amount = as_update(incs[0])[2]
    alts = unfolded(f, amount) or [amount]
    if not (_read_through_locals(f, amount) & _mutated_in_place(f)):
        # the length of a sequence built from n items, and not changed since, is n
        alts = [_counted(a_) for a_ in alts]
    ok = all(isinstance(a_, ast.Subscript) and dotted(a_.value) == sizes_par and dotted(a_.slice) == dotted(lp.target) for a_ in alts)
    ctx.ob("16.5-indices", con, ok, f"the offset must advance by the full size of the variable (`{sizes_par}[{dotted(lp.target)}]`), not by the number of selected components: the components of the following variables are otherwise numbered too low and other components are differentiated", node=incs[0], stmt="offset advances by the full size of the variable")


def check_zero_tolerance(ctx: Ctx) -> None:
    """16.6: the perturbed points of a discipline-level approximation are evaluated with a cache tolerance of zero
    (a tolerance larger than the step would serve the nominal outputs for every perturbed point: zero Jacobian)."""
    f = ctx.index.method(DA, "DisciplineJacApprox", "__set_zero_cache_tol")
    con = cname(DA, "DisciplineJacApprox", "__set_zero_cache_tol")
    cfg = cfg_of(f)
    ys = [n_ for n_ in walk_body(f) if isinstance(n_, ast.Yield)]
    sets = [s_ for s_ in stmts_of(f) if isinstance(s_, ast.Assign) and (dotted(s_.targets[0]) or "").endswith("cache.tolerance")]
    zero = [s_ for s_ in sets if const_value(s_.value, None) in (0, 0.0) and not isinstance(const_value(s_.value, None), bool)]
    restore = [s_ for s_ in sets if s_ not in zero]
    ok = bool(zero)
    y_cache = []
    for y in ys:
        yn = cfg.node_of(y)
        facts = literal_facts(cfg, yn)
        if any("cache" in k_ and ((" is not None" in k_ and v_) or (" is None" in k_ and not v_)) for k_, v_ in facts.items()):
            y_cache.append(yn)
    ok = ok and bool(y_cache) and all(any(cfg.dominates(cfg.node_of(z), yn) for z in zero) for yn in y_cache)
    ctx.ob("16.6-zero-tolerance", con, ok, "with a cache, the tolerance must be set to 0 before the approximation runs (before the yield)", node=(zero or ys or [f])[0], stmt="tolerance = 0 before the body")
    # ... whatever the tolerance and the step are: the tolerance is relative to the norm of the inputs, so no comparison
    # of the two can tell that a perturbed point will not be mistaken for the nominal one
    okc = bool(zero)
    for z in zero:
        for k_ in literal_facts(cfg, cfg.node_of(z)):
            names = {n_.id for n_ in ast.walk(ast.parse(k_, mode="eval")) if isinstance(n_, ast.Name)} | {n_.attr for n_ in ast.walk(ast.parse(k_, mode="eval")) if isinstance(n_, ast.Attribute)}
            if not (" is None" in k_ or " is not None" in k_) or names & {"tolerance", "step"}:
                okc = False
    ctx.ob("16.6-zero-tolerance", con, okc, "the tolerance is zeroed whenever there is a cache: a condition on the size of the tolerance or of the step (the tolerance is relative to the norm of the inputs) leaves perturbed points to be served from the cache -- a null Jacobian", node=(zero or [f])[0], stmt="zeroing depends only on the existence of the cache")
    ok = bool(restore) and all(cfg.escape_path(yn, {cfg.node_of(r_) for r_ in restore}) is None for yn in y_cache) and all(dotted(r_.value) for r_ in restore)
    saved = {dotted(r_.value) for r_ in restore}
    ok = ok and all(any(isinstance(s_, ast.Assign) and dotted(s_.targets[0]) == v_ and (dotted(s_.value) or "").endswith("cache.tolerance") and any(cfg.dominates(cfg.node_of(s_), cfg.node_of(z)) for z in zero) for s_ in stmts_of(f)) for v_ in saved)
    ctx.ob("16.6-zero-tolerance", con, ok, "the user's tolerance, read before it is zeroed, must be restored after the approximation", node=(restore or [f])[0], stmt="tolerance restored after the body")
    # the cache whose tolerance is zeroed is the cache the discipline has NOW (`set_cache` may have replaced the one it
    # had when the approximator was built)
    from gv.props.shared import unfolded as _unf

    for z in zero:
        holder = z.targets[0].value  # <cache>.tolerance
        alts = _unf(f, holder) or [holder]
        ok_c = bool(alts) and all(norm_stmt(a_) == "self.discipline.cache" for a_ in alts)
        ctx.ob("16.6-zero-tolerance", con, ok_c, f"the tolerance that is zeroed must be that of the discipline's current cache (`self.discipline.cache`, read when the context is entered); found `{' | '.join(norm_stmt(a_, 60) for a_ in alts)}`: a cache object captured earlier is no longer the one in use after set_cache", node=z, stmt="the current cache is the one zeroed")
    # the evaluations at perturbed points happen inside the context: every call of an approximator routine that
    # evaluates the discipline (the callee is resolved through locals: `g = self.approximator.f_gradient; g(x)`)
    from gv.dataflow import SymValues

    cls = ctx.index.cls(DA, "DisciplineJacApprox")
    n_calls = 0
    for mname, routines in (("compute_approx_jac", {"f_gradient"}), ("auto_set_step", {"compute_optimal_step"})):
        g = cls.methods[mname]
        sv = SymValues(g)
        calls = []
        for c in walk_body(g):
            if isinstance(c, ast.Call) and sv.cfg.has(c):
                for t in sv.texts(c.func):
                    if any(t == f"self.approximator.{r_}" for r_ in routines):
                        calls.append(c)
                        break
        ctx.need(calls, f"{mname}: no call of self.approximator.{sorted(routines)[0]} found")
        def zero_tol(e):
            """The context expression is, on every path, a call of the zero-tolerance context manager (possibly
            created before the ``with`` and held in a local: nothing runs before it is entered)."""
            alts = sv.exprs(e) if sv.cfg.has(e) else [e]
            return bool(alts) and all(isinstance(a_, ast.Call) and last_attr(a_) in ("__set_zero_cache_tol", "_DisciplineJacApprox__set_zero_cache_tol") for a_ in alts)

        withs = [w for w in ast.walk(g) if isinstance(w, ast.With) and any(zero_tol(it.context_expr) for it in w.items)]
        for c in calls:
            n_calls += 1
            ok = any(any(sub is c for sub in ast.walk(w)) for w in withs)
            ctx.ob("16.6-zero-tolerance", cname(DA, "DisciplineJacApprox", mname), ok, f"{sorted(routines)[0]} evaluates the discipline at perturbed points: it must be CALLED under the zero-tolerance context (fetching the bound method inside the context and calling it after does nothing)", node=c, stmt=f"{sorted(routines)[0]} called under __set_zero_cache_tol")
    ctx.floor("16.6-zero-tolerance", 5)


def check_overrides_forward(ctx: Ctx) -> None:
    """16.5-forwarded: an approximator method that specialises its base method and hands the work over with
    ``super().<same method>(...)`` passes on every argument it received under the base's own parameter names: an argument
    left out silently takes the base's default (all the components instead of the requested subset, the default step
    instead of the requested one)."""
    n = 0
    for rel in sorted(r for r in ctx.index.modules if r.startswith("utils/derivatives/") and r.endswith(".py")):
        for cls in ctx.index.module(rel).classes.values():
            for mname, f in cls.methods.items():
                sup = [c for c in walk_body(f) if isinstance(c, ast.Call) and isinstance(c.func, ast.Attribute) and c.func.attr == mname and isinstance(c.func.value, ast.Call) and dotted(c.func.value.func) == "super"]
                if not sup:
                    continue
                base = None
                for b in ctx.index.mro(cls)[1:]:
                    if mname in b.methods:
                        base = b.methods[mname]
                        break
                if base is None:
                    continue
                base_params = [a.arg for a in [*base.args.args[1:], *base.args.kwonlyargs]]
                own = [a.arg for a in [*f.args.args[1:], *f.args.kwonlyargs]]
                for c in sup:
                    if any(isinstance(a, ast.Starred) for a in c.args):
                        continue
                    passed = {k.arg for k in c.keywords if k.arg} | set(base_params[: len(c.args)]) | set(getattr(c, "_gv_bind", {}) or {})
                    for p_ in own:
                        if p_ not in base_params:
                            continue
                        n += 1
                        ok = p_ in passed
                        if ok:
                            v = kwarg(c, p_) or (c.args[base_params.index(p_)] if base_params.index(p_) < len(c.args) else None)
                            # what is passed derives from the parameter (possibly re-bound before: `step = ... step ...`)
                            ok = v is not None and p_ in names_in(v)
                        ctx.ob("16.5-forwarded", cname(rel, cls.name, mname), ok, f"{cls.name}.{mname} receives `{p_}` and delegates to the base method without passing it on: the base then uses its default for `{p_}`", node=c, stmt=f"{p_} forwarded to super().{mname}")
    ctx.floor("16.5-forwarded", 3)


def check_approximation_point(ctx: Ctx) -> None:
    """16.7: the discipline-level approximation differentiates the function "outputs of the discipline as a function of
    the differentiated inputs, the OTHER inputs being those of the point of linearisation".  The function is built by
    ``DisciplineAdapterGenerator.get_function(input_names, output_names, default_input_data=...)``: without the third
    argument the other inputs are the discipline's default values (F47)."""
    f = ctx.index.method(DA, "DisciplineJacApprox", "_create_approximator")
    con = cname(DA, "DisciplineJacApprox", "_create_approximator")
    calls_ = [c for c in walk_body(f) if isinstance(c, ast.Call) and last_attr(c) == "get_function"]
    ctx.need(len(calls_) == 1, "_create_approximator: the function to differentiate (generator.get_function) was not found")
    v = kwarg(calls_[0], "default_input_data") or (calls_[0].args[2] if len(calls_[0].args) > 2 else None)
    # ... or the defaults are set from the current data around the approximation
    g = ctx.index.method(DA, "DisciplineJacApprox", "compute_approx_jac")
    sets_defaults = any(isinstance(c, ast.Call) and isinstance(c.func, ast.Attribute) and c.func.attr == "update" and (dotted(c.func.value) or "").endswith("defaults") and "io.data" in norm_stmt(c, 300) for c in walk_body(g))
    ok = (v is not None and "data" in norm_stmt(v, 200)) or sets_defaults
    ctx.ob("16.7-approximation-point", con, ok, "the inputs that are not differentiated must take the values of the point of linearisation (the discipline's current data), not the default values: with a subset of differentiated inputs the approximated Jacobian is that of another point", node=calls_[0], stmt="non-differentiated inputs at the point of linearisation")


def run(ctx: Ctx) -> None:
    check_approximation_point(ctx)
    check_overrides_forward(ctx)
    check_bound_sources(ctx)
    check_variable_indices(ctx)
    check_zero_tolerance(ctx)
    check_kinds(ctx)
    check_twins(ctx)
    check_placement(ctx)
    check_flip(ctx)
    check_flip_centered(ctx)


# ---------------------------------------------------------------------------
WITNESSES = [
    {"name": "seeded-C16-12", "file": "utils/derivatives/derivatives_approx.py", "old": "from numpy import amax\nfrom numpy import arange\nfrom numpy import atleast_2d\nfrom numpy import concatenate\nfrom numpy import divide\nfrom numpy import ndarray\nfrom numpy import zeros\n\nLOGGER = logging.getLogger(__name__)\n\n\n# TODO: API: rename to JacobianApproximator?\nclass DisciplineJacApprox:\n    \"\"\"Approximates a discipline Jacobian using finite differences or Complex step.\"\"\"\n\n    approximator: BaseGradientApproximator | None\n    \"\"\"The gradient approximation method.\"\"\"\n\n    generator_class: ClassVar[type[DisciplineAdapterGenerator]] = (\n        DisciplineAdapterGenerator\n    )\n    \"\"\"The generator class used to create ``MDOFunction`` from an ``Discipline``.\"\"\"\n\n    def __init__(\n        self,\n        discipline: BaseDiscipline,\n        approx_method: ApproximationMode = ApproximationMode.FINITE_DIFFERENCES,\n        step: Number | Iterable[Number] = 1e-7,\n        parallel: bool = False,\n        n_processes: int = N_CPUS,\n        use_threading: bool = False,\n        wait_time_between_fork: float = 0,\n    ) -> None:\n        \"\"\"\n        Args:\n            discipline: The discipline\n                for which the Jacobian approximation shall be made.\n            approx_method: The approximation method,\n                either ``complex_step`` or ``finite_differences``.\n            step: The differentiation step. The ``finite_differences`` takes either\n                a float or an iterable of floats with the same length as the inputs.\n                The ``complex_step`` method takes either a complex or a float as input.\n            parallel: Whether to differentiate the discipline in parallel.\n            n_processes: The maximum simultaneous number of threads,\n                if ``use_threading`` is True, or processes otherwise,\n                used to parallelize the execution.\n            use_threading: Whether to use threads instead of processes\n                to parallelize the execution;\n                multiprocessing will copy (serialize) all the disciplines,\n                while threading will share all the memory\n                This is important to note\n                if you want to execute the same discipline multiple times,\n                you shall use multiprocessing.\n            wait_time_between_fork: The time waited between two forks\n                of the process / thread.\n        \"\"\"  # noqa:D205 D212 D415\n        self.discipline = discipline\n        self.approx_method = approx_method\n        self.step = step\n        self.generator = self.generator_class(discipline)\n        self.func = None\n        self.approximator = None\n        self.auto_steps = {}\n        self.__par_args = {\n            \"n_processes\": n_processes,\n            \"use_threading\": use_threading,\n            \"wait_time_between_fork\": wait_time_between_fork,\n        }\n        self.__parallel = parallel\n\n    def _create_approximator(\n        self,\n        output_names: Sequence[str],\n        input_names: Sequence[str],\n    ) -> None:\n        \"\"\"Create the Jacobian approximation class.\n\n        Args:\n            input_names: The names of the inputs used to differentiate the outputs.\n            output_names: The names of the outputs to be differentiated.\n\n        Raises:\n            ValueError: If the Jacobian approximation method is unknown.\n        \"\"\"\n        self.func = self.generator.get_function(input_names, output_names)\n        self.approximator = GradientApproximatorFactory().create(\n            self.approx_method,\n            self.func.evaluate,\n            step=self.step,\n            parallel=self.__parallel,\n            **self.__par_args,\n        )\n\n    def auto_set_step(\n        self,\n        output_names: Sequence[str],\n        input_names: Sequence[str],\n        print_errors: bool = True,\n        numerical_error: float = EPSILON,\n    ) -> tuple[ndarray, dict[str, ndarray]]:\n        r\"\"\"Compute the optimal step.\n\n        Require a first evaluation of the perturbed functions values.\n\n        The optimal step is reached when the truncation error\n        (cut in the Taylor development),\n        and the numerical cancellation errors\n        (round-off when doing :math:`f(x+step)-f(x))` are equal.\n\n        Args:\n            input_names: The names of the inputs used to differentiate the outputs.\n            output_names: The names of the outputs to be differentiated.\n            print_errors: Whether to log the cancellation\n                and truncation error estimates.\n            numerical_error: The numerical error\n                associated to the calculation of :math:`f`.\n                By default, Machine epsilon (appx 1e-16),\n                but can be higher.\n                when the calculation of :math:`f` requires a numerical resolution.\n\n        See Also:\n            https://en.wikipedia.org/wiki/Numerical_differentiation\n            and *Numerical Algorithms and Digital Representation*,\n            Knut Morken, Chapter 11, \"Numerical Differentiation\"\n\n        Returns:\n            The Jacobian of the function.\n        \"\"\"\n        self._create_approximator(output_names, input_names)\n\n        x_vect = self._prepare_xvect(\n            input_names, self.discipline.io.input_grammar.defaults\n        )\n        with self.__set_zero_cache_tol():\n            steps_opt, errors = self.approximator.compute_optimal_step(\n                x_vect, numerical_error=numerical_error\n            )\n\n        if print_errors:\n            LOGGER.info(\n                \"Set optimal step for finite differences. \"\n                \"Estimated approximation errors =\"\n            )\n            LOGGER.info(errors)\n\n        data = self.discipline.io.input_grammar.defaults or self.discipline.io.data\n        names_to_slices = (\n            self.discipline.io.input_grammar.data_converter.compute_names_to_slices(\n                input_names,\n                data,\n            )[0]\n        )\n\n        self.auto_steps = (\n            self.discipline.io.input_grammar.data_converter.convert_array_to_data(\n                steps_opt, names_to_slices\n            )\n        )\n\n        return errors, self.auto_steps\n\n    @contextmanager\n    def __set_zero_cache_tol(self) -> None:\n        \"\"\"A context manager to temporary set the discipline cache tolerance to zero.\"\"\"\n        if self.discipline.cache is not None:\n            old_cache_tol = self.discipline.cache.tolerance\n            self.discipline.cache.tolerance = 0.0\n            yield\n            self.discipline.cache.tolerance = old_cache_tol\n        else:\n            yield\n\n    def _prepare_xvect(\n        self,\n        input_names: Iterable[str],\n        data: DisciplineData = READ_ONLY_EMPTY_DICT,\n    ) -> ndarray:\n        \"\"\"Convert an input data mapping into an input array.\n\n        Args:\n            input_names: The names of the inputs to be used for the differentiation.\n            data: The input data mapping.\n                If empty, use the local data of the discipline.\n\n        Returns:\n            The input array.\n        \"\"\"\n        if not data:\n            data = self.discipline.io.data\n\n        return self.discipline.io.input_grammar.data_converter.convert_data_to_array(\n            input_names,\n            data,\n        )\n\n    def compute_approx_jac(\n        self,\n        output_names: Iterable[str],\n        input_names: Iterable[str],\n        x_indices: Sequence[int] = (),\n    ) -> dict[str, dict[str, ndarray]]:\n        \"\"\"Approximate the Jacobian.\n\n        Args:\n            output_names: The names of the outputs to be differentiated.\n            input_names: The names of the inputs used to differentiate the outputs.\n            x_indices: The components of the input vector\n                to be used for the differentiation.\n                If empty, use all the components.\n\n        Returns:\n            The approximated Jacobian.\n        \"\"\"\n        self._create_approximator(output_names, input_names)\n\n        if self.auto_steps and all(key in self.auto_steps for key in input_names):\n            step = (\n                self.discipline.io.input_grammar.data_converter.convert_data_to_array(\n                    input_names,\n                    self.auto_steps,\n                )\n            )\n        else:\n            step = self.step\n\n        x_vect = self._prepare_xvect(input_names, self.discipline.io.data)\n\n        if isinstance(step, Sized) and 1 < len(step) != len(x_vect):\n            msg = f\"Inconsistent step size, expected {x_vect.size} got {len(step)}.\"\n            raise ValueError(msg)\n\n        with self.__set_zero_cache_tol():\n            flat_jac = atleast_2d(\n", "new": "from numpy import amax\nfrom numpy import amin\nfrom numpy import arange\nfrom numpy import atleast_2d\nfrom numpy import concatenate\nfrom numpy import divide\nfrom numpy import ndarray\nfrom numpy import zeros\n\nLOGGER = logging.getLogger(__name__)\n\n\n# TODO: API: rename to JacobianApproximator?\nclass DisciplineJacApprox:\n    \"\"\"Approximates a discipline Jacobian using finite differences or Complex step.\"\"\"\n\n    approximator: BaseGradientApproximator | None\n    \"\"\"The gradient approximation method.\"\"\"\n\n    generator_class: ClassVar[type[DisciplineAdapterGenerator]] = (\n        DisciplineAdapterGenerator\n    )\n    \"\"\"The generator class used to create ``MDOFunction`` from an ``Discipline``.\"\"\"\n\n    def __init__(\n        self,\n        discipline: BaseDiscipline,\n        approx_method: ApproximationMode = ApproximationMode.FINITE_DIFFERENCES,\n        step: Number | Iterable[Number] = 1e-7,\n        parallel: bool = False,\n        n_processes: int = N_CPUS,\n        use_threading: bool = False,\n        wait_time_between_fork: float = 0,\n    ) -> None:\n        \"\"\"\n        Args:\n            discipline: The discipline\n                for which the Jacobian approximation shall be made.\n            approx_method: The approximation method,\n                either ``complex_step`` or ``finite_differences``.\n            step: The differentiation step. The ``finite_differences`` takes either\n                a float or an iterable of floats with the same length as the inputs.\n                The ``complex_step`` method takes either a complex or a float as input.\n            parallel: Whether to differentiate the discipline in parallel.\n            n_processes: The maximum simultaneous number of threads,\n                if ``use_threading`` is True, or processes otherwise,\n                used to parallelize the execution.\n            use_threading: Whether to use threads instead of processes\n                to parallelize the execution;\n                multiprocessing will copy (serialize) all the disciplines,\n                while threading will share all the memory\n                This is important to note\n                if you want to execute the same discipline multiple times,\n                you shall use multiprocessing.\n            wait_time_between_fork: The time waited between two forks\n                of the process / thread.\n        \"\"\"  # noqa:D205 D212 D415\n        self.discipline = discipline\n        self.approx_method = approx_method\n        self.step = step\n        self.generator = self.generator_class(discipline)\n        self.func = None\n        self.approximator = None\n        self.auto_steps = {}\n        self.__par_args = {\n            \"n_processes\": n_processes,\n            \"use_threading\": use_threading,\n            \"wait_time_between_fork\": wait_time_between_fork,\n        }\n        self.__parallel = parallel\n\n    def _create_approximator(\n        self,\n        output_names: Sequence[str],\n        input_names: Sequence[str],\n    ) -> None:\n        \"\"\"Create the Jacobian approximation class.\n\n        Args:\n            input_names: The names of the inputs used to differentiate the outputs.\n            output_names: The names of the outputs to be differentiated.\n\n        Raises:\n            ValueError: If the Jacobian approximation method is unknown.\n        \"\"\"\n        self.func = self.generator.get_function(input_names, output_names)\n        self.approximator = GradientApproximatorFactory().create(\n            self.approx_method,\n            self.func.evaluate,\n            step=self.step,\n            parallel=self.__parallel,\n            **self.__par_args,\n        )\n\n    def auto_set_step(\n        self,\n        output_names: Sequence[str],\n        input_names: Sequence[str],\n        print_errors: bool = True,\n        numerical_error: float = EPSILON,\n    ) -> tuple[ndarray, dict[str, ndarray]]:\n        r\"\"\"Compute the optimal step.\n\n        Require a first evaluation of the perturbed functions values.\n\n        The optimal step is reached when the truncation error\n        (cut in the Taylor development),\n        and the numerical cancellation errors\n        (round-off when doing :math:`f(x+step)-f(x))` are equal.\n\n        Args:\n            input_names: The names of the inputs used to differentiate the outputs.\n            output_names: The names of the outputs to be differentiated.\n            print_errors: Whether to log the cancellation\n                and truncation error estimates.\n            numerical_error: The numerical error\n                associated to the calculation of :math:`f`.\n                By default, Machine epsilon (appx 1e-16),\n                but can be higher.\n                when the calculation of :math:`f` requires a numerical resolution.\n\n        See Also:\n            https://en.wikipedia.org/wiki/Numerical_differentiation\n            and *Numerical Algorithms and Digital Representation*,\n            Knut Morken, Chapter 11, \"Numerical Differentiation\"\n\n        Returns:\n            The Jacobian of the function.\n        \"\"\"\n        self._create_approximator(output_names, input_names)\n\n        x_vect = self._prepare_xvect(\n            input_names, self.discipline.io.input_grammar.defaults\n        )\n        with self.__set_zero_cache_tol(self.step):\n            steps_opt, errors = self.approximator.compute_optimal_step(\n                x_vect, numerical_error=numerical_error\n            )\n\n        if print_errors:\n            LOGGER.info(\n                \"Set optimal step for finite differences. \"\n                \"Estimated approximation errors =\"\n            )\n            LOGGER.info(errors)\n\n        data = self.discipline.io.input_grammar.defaults or self.discipline.io.data\n        names_to_slices = (\n            self.discipline.io.input_grammar.data_converter.compute_names_to_slices(\n                input_names,\n                data,\n            )[0]\n        )\n\n        self.auto_steps = (\n            self.discipline.io.input_grammar.data_converter.convert_array_to_data(\n                steps_opt, names_to_slices\n            )\n        )\n\n        return errors, self.auto_steps\n\n    @contextmanager\n    def __set_zero_cache_tol(self, step: Number | Iterable[Number]) -> None:\n        \"\"\"A context manager to temporary set the discipline cache tolerance to zero.\n\n        Args:\n            step: The differentiation step.\n        \"\"\"\n        cache = self.discipline.cache\n        if cache is None or cache.tolerance < amin(absolute(step)):\n            # The cache cannot mistake a perturbed point for the current one.\n            yield\n        else:\n            old_cache_tol = cache.tolerance\n            cache.tolerance = 0.0\n            yield\n            cache.tolerance = old_cache_tol\n\n    def _prepare_xvect(\n        self,\n        input_names: Iterable[str],\n        data: DisciplineData = READ_ONLY_EMPTY_DICT,\n    ) -> ndarray:\n        \"\"\"Convert an input data mapping into an input array.\n\n        Args:\n            input_names: The names of the inputs to be used for the differentiation.\n            data: The input data mapping.\n                If empty, use the local data of the discipline.\n\n        Returns:\n            The input array.\n        \"\"\"\n        if not data:\n            data = self.discipline.io.data\n\n        return self.discipline.io.input_grammar.data_converter.convert_data_to_array(\n            input_names,\n            data,\n        )\n\n    def compute_approx_jac(\n        self,\n        output_names: Iterable[str],\n        input_names: Iterable[str],\n        x_indices: Sequence[int] = (),\n    ) -> dict[str, dict[str, ndarray]]:\n        \"\"\"Approximate the Jacobian.\n\n        Args:\n            output_names: The names of the outputs to be differentiated.\n            input_names: The names of the inputs used to differentiate the outputs.\n            x_indices: The components of the input vector\n                to be used for the differentiation.\n                If empty, use all the components.\n\n        Returns:\n            The approximated Jacobian.\n        \"\"\"\n        self._create_approximator(output_names, input_names)\n\n        if self.auto_steps and all(key in self.auto_steps for key in input_names):\n            step = (\n                self.discipline.io.input_grammar.data_converter.convert_data_to_array(\n                    input_names,\n                    self.auto_steps,\n                )\n            )\n        else:\n            step = self.step\n\n        x_vect = self._prepare_xvect(input_names, self.discipline.io.data)\n\n        if isinstance(step, Sized) and 1 < len(step) != len(x_vect):\n            msg = f\"Inconsistent step size, expected {x_vect.size} got {len(step)}.\"\n            raise ValueError(msg)\n\n        with self.__set_zero_cache_tol(step):\n            flat_jac = atleast_2d(\n", "expect": "16.6", "note": "DisciplineJacApprox resets the cache tolerance only when it is not smaller than "},
    {"name": "seeded-C16-11", "file": "utils/derivatives/finite_differences.py", "old": "from numpy import full\nfrom numpy import ndarray\nfrom numpy import tile\nfrom numpy import where\nfrom numpy import zeros\n\nfrom gemseo.core.parallel_execution.callable_parallel_execution import (\n    CallableParallelExecution,\n)\nfrom gemseo.utils.derivatives.approximation_modes import ApproximationMode\nfrom gemseo.utils.derivatives.base_gradient_approximator import BaseGradientApproximator\nfrom gemseo.utils.derivatives.error_estimators import EPSILON\nfrom gemseo.utils.derivatives.error_estimators import compute_best_step\n\n\nclass FirstOrderFD(BaseGradientApproximator):\n    r\"\"\"First-order finite differences approximator.\n\n    .. math::\n\n        \\frac{df(x)}{dx}\\approx\\frac{f(x+\\\\delta x)-f(x)}{\\\\delta x}\n    \"\"\"\n\n    _APPROXIMATION_MODE = ApproximationMode.FINITE_DIFFERENCES\n\n    _DEFAULT_STEP: ClassVar[float] = 1.0e-6\n\n    def _compute_parallel_grad(\n        self,\n        input_values: ndarray,\n        input_perturbations: ndarray,\n        step: float | ndarray,\n        **kwargs: Any,\n    ) -> ndarray:\n        n_perturbations = input_perturbations.shape[1]\n        if step is None:\n            step = self.step\n\n        if not isinstance(step, ndarray):\n            step = full(n_perturbations, step)\n\n        self._function_kwargs = kwargs\n        functions = [self._wrap_function] * (n_perturbations + 1)\n        parallel_execution = CallableParallelExecution(functions, **self._parallel_args)\n\n        perturbated_inputs = [\n            input_perturbations[:, perturbation_index]\n            for perturbation_index in range(n_perturbations)\n        ]\n        initial_and_perturbated_outputs = parallel_execution.execute([\n            input_values,\n            *perturbated_inputs,\n        ])\n\n        gradient = []\n        initial_output = initial_and_perturbated_outputs[0]\n        for perturbation_index in range(n_perturbations):\n            perturbated_output = initial_and_perturbated_outputs[perturbation_index + 1]\n            g_approx = (perturbated_output - initial_output) / step[perturbation_index]\n            gradient.append(g_approx.real)\n\n        return gradient\n\n    def _compute_grad(\n        self,\n        input_values: ndarray,\n        input_perturbations: ndarray,\n        step: float | ndarray,\n        **kwargs: Any,\n    ) -> ndarray:\n        n_perturbations = input_perturbations.shape[1]\n        if step is None:\n            step = self.step\n\n        if not isinstance(step, ndarray):\n            step = full(n_perturbations, step)\n\n        gradient = []\n        initial_output = self.f_pointer(input_values, **kwargs)\n        for perturbation_index in range(n_perturbations):\n            perturbated_output = self.f_pointer(\n                input_perturbations[:, perturbation_index], **kwargs\n            )\n            g_approx = (perturbated_output - initial_output) / step[perturbation_index]\n            gradient.append(g_approx.real)\n\n        return gradient\n\n    def _get_opt_step(\n        self,\n        f_p: ndarray,\n        f_0: ndarray,\n        f_m: ndarray,\n        numerical_error: float = EPSILON,\n    ) -> tuple[ndarray, ndarray]:\n        r\"\"\"Compute the optimal step of a function.\n\n        This function may be a vector function.\n        In this case, take the worst case.\n\n        Args:\n            f_p: The value of the function :math:`f`\n                 at the next step :math:`x+\\\\delta_x`.\n            f_0: The value of the function :math:`f`\n                 at the current step :math:`x`.\n            f_m: The value of the function :math:`f`\n                 at the previous step :math:`x-\\\\delta_x`.\n            numerical_error: The numerical error\n                associated to the calculation of :math:`f`.\n                By default, Machine epsilon (appx 1e-16),\n                but can be higher.\n                when the calculation of :math:`f` requires a numerical resolution.\n\n        Returns:\n            The errors.\n            The optimal steps.\n        \"\"\"\n        n_out = f_p.size\n        if n_out == 1:\n            t_e, c_e, opt_step = compute_best_step(\n                f_p, f_0, f_m, self.step, epsilon_mach=numerical_error\n            )\n            error = 0.0 if t_e is None else t_e + c_e\n        else:\n            errors = zeros(n_out)\n            opt_steps = zeros(n_out)\n            for i in range(n_out):\n                t_e, c_e, opt_steps[i] = compute_best_step(\n                    f_p[i], f_0[i], f_m[i], self.step, epsilon_mach=numerical_error\n                )\n                if t_e is None:\n                    errors[i] = 0.0\n                else:\n                    errors[i] = t_e + c_e\n            max_i = argmax(errors)\n            error = errors[max_i]\n            opt_step = opt_steps[max_i]\n\n        return error, opt_step\n\n    def compute_optimal_step(\n        self,\n        x_vect: ndarray,\n        numerical_error: float = EPSILON,\n        **kwargs,\n    ) -> tuple[ndarray, ndarray]:\n        r\"\"\"Compute the gradient by real step.\n\n        Args:\n            x_vect: The input vector.\n            numerical_error: The numerical error\n                associated to the calculation of :math:`f`.\n                By default, machine epsilon (appx 1e-16),\n                but can be higher.\n                when the calculation of :math:`f` requires a numerical resolution.\n            **kwargs: The additional arguments passed to the function.\n\n        Returns:\n            The optimal steps.\n            The errors.\n        \"\"\"\n        n_dim = len(x_vect)\n        x_p_arr, _ = self.generate_perturbations(n_dim, x_vect)\n        x_m_arr, _ = self.generate_perturbations(n_dim, x_vect, step=-self.step)\n        opt_steps = full(n_dim, self.step)\n        errors = zeros(n_dim)\n        comp_step = self._get_opt_step\n        if self._parallel:\n            self._function_kwargs = kwargs\n            functions = [self._wrap_function] * (n_dim * 2 + 1)\n            parallel_execution = CallableParallelExecution(\n                functions, **self._parallel_args\n            )\n\n            all_x = [x_vect] + [x_p_arr[:, i] for i in range(n_dim)]\n            all_x += [x_m_arr[:, i] for i in range(n_dim)]\n            outputs = parallel_execution.execute(all_x)\n\n            f_0 = outputs[0]\n            for i in range(n_dim):\n                f_p = outputs[i + 1]\n                f_m = outputs[n_dim + i + 1]\n                errs, opt_step = comp_step(\n                    f_p, f_0, f_m, numerical_error=numerical_error\n                )\n                errors[i] = errs\n                opt_steps[i] = opt_step\n        else:\n            f_0 = self.f_pointer(x_vect, **kwargs)\n            for i in range(n_dim):\n                f_p = self.f_pointer(x_p_arr[:, i], **kwargs)\n                f_m = self.f_pointer(x_m_arr[:, i], **kwargs)\n                errs, opt_step = comp_step(\n                    f_p, f_0, f_m, numerical_error=numerical_error\n                )\n                errors[i] = errs\n                opt_steps[i] = opt_step\n        self.step = opt_steps\n        return opt_steps, errors\n\n    def _generate_perturbations(\n        self,\n        input_values: ndarray,\n        input_indices: list[int],\n        step: float,\n    ) -> tuple[ndarray, ndarray]:\n        input_dimension = len(input_values)\n        n_indices = len(input_indices)\n        input_perturbations = (\n            tile(input_values, n_indices).reshape((n_indices, input_dimension)).T\n        )\n        if isinstance(step, ndarray):\n            # One step per input component: keep the ones of the differentiated ones.\n            step = step[input_indices]\n\n        if self._design_space is None:\n            input_perturbations[input_indices, range(n_indices)] += step\n            return input_perturbations, step\n\n        if self._normalize:\n            upper_bounds = self._design_space.normalize_vect(\n                self._design_space.get_upper_bounds()\n            )\n        else:\n            upper_bounds = self._design_space.get_upper_bounds()\n\n", "new": "from numpy import full\nfrom numpy import isinf\nfrom numpy import ndarray\nfrom numpy import tile\nfrom numpy import where\nfrom numpy import zeros\n\nfrom gemseo.core.parallel_execution.callable_parallel_execution import (\n    CallableParallelExecution,\n)\nfrom gemseo.utils.derivatives.approximation_modes import ApproximationMode\nfrom gemseo.utils.derivatives.base_gradient_approximator import BaseGradientApproximator\nfrom gemseo.utils.derivatives.error_estimators import EPSILON\nfrom gemseo.utils.derivatives.error_estimators import compute_best_step\n\n\nclass FirstOrderFD(BaseGradientApproximator):\n    r\"\"\"First-order finite differences approximator.\n\n    .. math::\n\n        \\frac{df(x)}{dx}\\approx\\frac{f(x+\\\\delta x)-f(x)}{\\\\delta x}\n    \"\"\"\n\n    _APPROXIMATION_MODE = ApproximationMode.FINITE_DIFFERENCES\n\n    _DEFAULT_STEP: ClassVar[float] = 1.0e-6\n\n    def _compute_parallel_grad(\n        self,\n        input_values: ndarray,\n        input_perturbations: ndarray,\n        step: float | ndarray,\n        **kwargs: Any,\n    ) -> ndarray:\n        n_perturbations = input_perturbations.shape[1]\n        if step is None:\n            step = self.step\n\n        if not isinstance(step, ndarray):\n            step = full(n_perturbations, step)\n\n        self._function_kwargs = kwargs\n        functions = [self._wrap_function] * (n_perturbations + 1)\n        parallel_execution = CallableParallelExecution(functions, **self._parallel_args)\n\n        perturbated_inputs = [\n            input_perturbations[:, perturbation_index]\n            for perturbation_index in range(n_perturbations)\n        ]\n        initial_and_perturbated_outputs = parallel_execution.execute([\n            input_values,\n            *perturbated_inputs,\n        ])\n\n        gradient = []\n        initial_output = initial_and_perturbated_outputs[0]\n        for perturbation_index in range(n_perturbations):\n            perturbated_output = initial_and_perturbated_outputs[perturbation_index + 1]\n            g_approx = (perturbated_output - initial_output) / step[perturbation_index]\n            gradient.append(g_approx.real)\n\n        return gradient\n\n    def _compute_grad(\n        self,\n        input_values: ndarray,\n        input_perturbations: ndarray,\n        step: float | ndarray,\n        **kwargs: Any,\n    ) -> ndarray:\n        n_perturbations = input_perturbations.shape[1]\n        if step is None:\n            step = self.step\n\n        if not isinstance(step, ndarray):\n            step = full(n_perturbations, step)\n\n        gradient = []\n        initial_output = self.f_pointer(input_values, **kwargs)\n        for perturbation_index in range(n_perturbations):\n            perturbated_output = self.f_pointer(\n                input_perturbations[:, perturbation_index], **kwargs\n            )\n            g_approx = (perturbated_output - initial_output) / step[perturbation_index]\n            gradient.append(g_approx.real)\n\n        return gradient\n\n    def _get_opt_step(\n        self,\n        f_p: ndarray,\n        f_0: ndarray,\n        f_m: ndarray,\n        numerical_error: float = EPSILON,\n    ) -> tuple[ndarray, ndarray]:\n        r\"\"\"Compute the optimal step of a function.\n\n        This function may be a vector function.\n        In this case, take the worst case.\n\n        Args:\n            f_p: The value of the function :math:`f`\n                 at the next step :math:`x+\\\\delta_x`.\n            f_0: The value of the function :math:`f`\n                 at the current step :math:`x`.\n            f_m: The value of the function :math:`f`\n                 at the previous step :math:`x-\\\\delta_x`.\n            numerical_error: The numerical error\n                associated to the calculation of :math:`f`.\n                By default, Machine epsilon (appx 1e-16),\n                but can be higher.\n                when the calculation of :math:`f` requires a numerical resolution.\n\n        Returns:\n            The errors.\n            The optimal steps.\n        \"\"\"\n        n_out = f_p.size\n        if n_out == 1:\n            t_e, c_e, opt_step = compute_best_step(\n                f_p, f_0, f_m, self.step, epsilon_mach=numerical_error\n            )\n            error = 0.0 if t_e is None else t_e + c_e\n        else:\n            errors = zeros(n_out)\n            opt_steps = zeros(n_out)\n            for i in range(n_out):\n                t_e, c_e, opt_steps[i] = compute_best_step(\n                    f_p[i], f_0[i], f_m[i], self.step, epsilon_mach=numerical_error\n                )\n                if t_e is None:\n                    errors[i] = 0.0\n                else:\n                    errors[i] = t_e + c_e\n            max_i = argmax(errors)\n            error = errors[max_i]\n            opt_step = opt_steps[max_i]\n\n        return error, opt_step\n\n    def compute_optimal_step(\n        self,\n        x_vect: ndarray,\n        numerical_error: float = EPSILON,\n        **kwargs,\n    ) -> tuple[ndarray, ndarray]:\n        r\"\"\"Compute the gradient by real step.\n\n        Args:\n            x_vect: The input vector.\n            numerical_error: The numerical error\n                associated to the calculation of :math:`f`.\n                By default, machine epsilon (appx 1e-16),\n                but can be higher.\n                when the calculation of :math:`f` requires a numerical resolution.\n            **kwargs: The additional arguments passed to the function.\n\n        Returns:\n            The optimal steps.\n            The errors.\n        \"\"\"\n        n_dim = len(x_vect)\n        x_p_arr, _ = self.generate_perturbations(n_dim, x_vect)\n        x_m_arr, _ = self.generate_perturbations(n_dim, x_vect, step=-self.step)\n        opt_steps = full(n_dim, self.step)\n        errors = zeros(n_dim)\n        comp_step = self._get_opt_step\n        if self._parallel:\n            self._function_kwargs = kwargs\n            functions = [self._wrap_function] * (n_dim * 2 + 1)\n            parallel_execution = CallableParallelExecution(\n                functions, **self._parallel_args\n            )\n\n            all_x = [x_vect] + [x_p_arr[:, i] for i in range(n_dim)]\n            all_x += [x_m_arr[:, i] for i in range(n_dim)]\n            outputs = parallel_execution.execute(all_x)\n\n            f_0 = outputs[0]\n            for i in range(n_dim):\n                f_p = outputs[i + 1]\n                f_m = outputs[n_dim + i + 1]\n                errs, opt_step = comp_step(\n                    f_p, f_0, f_m, numerical_error=numerical_error\n                )\n                errors[i] = errs\n                opt_steps[i] = opt_step\n        else:\n            f_0 = self.f_pointer(x_vect, **kwargs)\n            for i in range(n_dim):\n                f_p = self.f_pointer(x_p_arr[:, i], **kwargs)\n                f_m = self.f_pointer(x_m_arr[:, i], **kwargs)\n                errs, opt_step = comp_step(\n                    f_p, f_0, f_m, numerical_error=numerical_error\n                )\n                errors[i] = errs\n                opt_steps[i] = opt_step\n        self.step = opt_steps\n        return opt_steps, errors\n\n    def _generate_perturbations(\n        self,\n        input_values: ndarray,\n        input_indices: list[int],\n        step: float,\n    ) -> tuple[ndarray, ndarray]:\n        input_dimension = len(input_values)\n        n_indices = len(input_indices)\n        input_perturbations = (\n            tile(input_values, n_indices).reshape((n_indices, input_dimension)).T\n        )\n        if isinstance(step, ndarray):\n            # One step per input component: keep the ones of the differentiated ones.\n            step = step[input_indices]\n\n        if self._design_space is None:\n            input_perturbations[input_indices, range(n_indices)] += step\n            return input_perturbations, step\n\n        upper_bounds = self._design_space.get_upper_bounds()\n        if self._normalize:\n            # In the normalized space, the finite upper bounds are equal to one.\n            upper_bounds = where(isinf(upper_bounds), upper_bounds, 1.0)\n\n", "expect": "16.4", "note": "FirstOrderFD assumes that every finite upper bound is 1 in the normalized space,"},
    {"name": "seeded-C16-10", "file": "utils/derivatives/complex_step.py", "old": "            raise ValueError(msg)\n        return super().f_gradient(x_vect, step=step, x_indices=x_indices, **kwargs)\n\n", "new": "            raise ValueError(msg)\n        return super().f_gradient(x_vect, step=step, **kwargs)\n\n", "expect": "16.5", "note": "ComplexStep.f_gradient override no longer forwards x_indices to the base impleme"},
    {"name": "centred-steps-not-restricted", "file": CD, "old": "        if isinstance(step, ndarray):\n            # One step per input component: keep the ones of the differentiated ones.\n            step = step[input_indices]\n\n        if self._design_space is None:\n            input_perturbations[input_indices, range(n_indices)] += step\n            input_perturbations[input_indices, range(n_indices, 2 * n_indices)] -= step", "new": "        if self._design_space is None:\n            input_perturbations[input_indices, range(n_indices)] += step\n            input_perturbations[input_indices, range(n_indices, 2 * n_indices)] -= step", "expect": "16.1"},
    {"name": "optimal-step-called-after-the-context", "file": DA, "old": "        with self.__set_zero_cache_tol():\n            steps_opt, errors = self.approximator.compute_optimal_step(\n                x_vect, numerical_error=numerical_error\n            )\n", "new": "        with self.__set_zero_cache_tol():\n            compute_opt_step = self.approximator.compute_optimal_step\n\n        steps_opt, errors = compute_opt_step(x_vect, numerical_error=numerical_error)\n", "expect": "16.6"},
    {"name": "centred-upper-bounds-from-lower", "file": CD, "old": "            upper_bounds = normalize_vect(upper_bounds)", "new": "            upper_bounds = normalize_vect(lower_bounds)", "expect": "16.4"},
    {"name": "indices-offset-by-selected-count", "file": DA, "old": "            variable_position += variable_size\n", "new": "            variable_position += len(indices_sequence[-1])\n", "expect": "16.5"},
    {"name": "zero-tolerance-not-set", "file": DA, "old": "            self.discipline.cache.tolerance = 0.0\n", "new": "", "expect": "16.6"},
    {"name": "flip-only-on-the-bound", "file": FD, "old": "            input_perturbations[input_indices, range(n_indices)] + step\n            > upper_bounds[input_indices],", "new": "            input_perturbations[input_indices, range(n_indices)]\n            >= upper_bounds[input_indices],", "expect": "16.4"},
    {"name": "centered-forward-side-only-on-the-bound", "file": CD, "old": "            input_perturbations[input_indices, range(n_indices)] + step\n            > upper_bounds[input_indices],", "new": "            input_perturbations[input_indices, range(n_indices)]\n            >= upper_bounds[input_indices],", "expect": "16.4"},
    {"name": "centered-bounds-of-all-components", "file": CD, "old": "            < lower_bounds[input_indices],", "new": "            < lower_bounds,", "expect": "16."},
    {"name": "complex-step-diagonal-index", "file": CS, "old": "            gradient.append(perturbated_output.imag / step[perturbation_index])", "new": "            gradient.append(\n                perturbated_output.imag\n                / input_perturbations[perturbation_index, perturbation_index].imag\n            )", "expect": "16."},
    {"name": "complex-step-steps-not-restricted", "file": CS, "old": "        if isinstance(step, ndarray):\n            # One step per input component: keep the ones of the differentiated ones.\n            step = step[input_indices]\n\n        # One step per perturbation.", "new": "        # One step per perturbation.", "expect": "16.1"},
    {"name": "fd-bounds-not-restricted", "file": FD, "old": "            > upper_bounds[input_indices],", "new": "            > upper_bounds,", "expect": "16.1"},
    {"name": "fd-steps-not-restricted", "file": FD, "old": "        if isinstance(step, ndarray):\n            # One step per input component: keep the ones of the differentiated ones.\n            step = step[input_indices]\n\n        if self._design_space is None:", "new": "        if self._design_space is None:", "expect": "16.1"},
    {"name": "fd-perturbs-rows-by-perturbation-index", "file": FD, "old": "            input_perturbations[input_indices, range(n_indices)] += step\n            return input_perturbations, step", "new": "            input_perturbations[range(n_indices), range(n_indices)] += step\n            return input_perturbations, step", "expect": "16.1"},
    {"name": "fd-perturbation-array-transposed", "file": FD, "old": "            tile(input_values, n_indices).reshape((n_indices, input_dimension)).T\n", "new": "            tile(input_values, n_indices).reshape((n_indices, input_dimension))\n", "expect": "16.1"},
    {"name": "fd-parallel-numerator", "file": FD, "old": "            perturbated_output = initial_and_perturbated_outputs[perturbation_index + 1]\n            g_approx = (perturbated_output - initial_output) / step[perturbation_index]", "new": "            perturbated_output = initial_and_perturbated_outputs[perturbation_index + 1]\n            g_approx = (perturbated_output - perturbated_output) / step[perturbation_index]", "expect": "16.2"},
    {"name": "fd-parallel-output-offset", "file": FD, "old": "            perturbated_output = initial_and_perturbated_outputs[perturbation_index + 1]", "new": "            perturbated_output = initial_and_perturbated_outputs[perturbation_index]", "expect": "16.2"},
    {"name": "fd-serial-takes-row", "file": FD, "old": "                input_perturbations[:, perturbation_index], **kwargs\n            )", "new": "                input_perturbations[perturbation_index, :], **kwargs\n            )", "expect": "16."},
    {"name": "cs-parallel-divides-by-other-step", "file": CS, "old": "            perturbed_outputs[perturbation_index].imag / step[perturbation_index]", "new": "            perturbed_outputs[perturbation_index].imag / step[0]", "expect": "16.2"},
    {"name": "centered-pairs-same-half", "file": CD, "old": "                input_perturbations[n_perturbations_ : 2 * n_perturbations_],\n                output_perturbations[n_perturbations_ : 2 * n_perturbations_],", "new": "                input_perturbations[n_perturbations_ : 2 * n_perturbations_],\n                output_perturbations[:n_perturbations_],", "expect": "16.2"},
    {"name": "centered-denominator-half", "file": CD, "old": "                / norm(input_plus - input_minus)\n            ).real\n            for input_plus, input_minus in zip(", "new": "                / norm(input_plus - input_values)\n            ).real\n            for input_plus, input_minus in zip(", "expect": "16.2"},
    {"name": "partial-jacobian-in-rows", "file": DA, "old": "            flat_jac_complete[:, x_indices] = flat_jac", "new": "            flat_jac_complete[x_indices, :] = flat_jac", "expect": "16.3"},
    {"name": "subset-not-forwarded", "file": DA, "old": "                self.approximator.f_gradient(x_vect, x_indices=x_indices, step=step)", "new": "                self.approximator.f_gradient(x_vect, step=step)", "expect": "16.3"},
    {"name": "parallel-flag-inverted", "file": BA, "old": "        compute = self._compute_parallel_grad if self._parallel else self._compute_grad", "new": "        compute = self._compute_grad if self._parallel else self._compute_parallel_grad", "expect": "16.2"},
    {"name": "flip-at-lower-bound", "file": FD, "old": "            > upper_bounds[input_indices],\n            -step,\n            step,", "new": "            > upper_bounds[input_indices],\n            step,\n            -step,", "expect": "16.4"},
    {"name": "bounds-never-normalised", "file": FD, "old": "        if self._normalize:\n            upper_bounds = self._design_space.normalize_vect(\n                self._design_space.get_upper_bounds()\n            )\n        else:\n            upper_bounds = self._design_space.get_upper_bounds()", "new": "        upper_bounds = self._design_space.get_upper_bounds()", "expect": "16.4"},
    {"name": "unflipped-steps-returned", "file": FD, "old": "        return input_perturbations, steps", "new": "        return input_perturbations, step", "expect": "16.4"},
]
TWINS = [
    {"name": "flip-test-mirrored", "file": FD, "old": "            input_perturbations[input_indices, range(n_indices)] + step\n            > upper_bounds[input_indices],\n            -step,\n            step,", "new": "            upper_bounds[input_indices] - step\n            < input_perturbations[input_indices, range(n_indices)],\n            -step,\n            step,"},
    {"name": "flip-branches-swapped", "file": FD, "old": "            input_perturbations[input_indices, range(n_indices)] + step\n            > upper_bounds[input_indices],\n            -step,\n            step,", "new": "            input_perturbations[input_indices, range(n_indices)] + step\n            <= upper_bounds[input_indices],\n            step,\n            -step,"},
    {"name": "rename-perturbation-index", "file": CS, "old": "perturbation_index", "new": "k", "count": 0},
    {"name": "flip-mirrored-comparison", "file": FD, "old": "            input_perturbations[input_indices, range(n_indices)] + step\n            > upper_bounds[input_indices],", "new": "            upper_bounds[input_indices]\n            < input_perturbations[input_indices, range(n_indices)] + step,"},
]
