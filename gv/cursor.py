"""K13 -- the running-cursor idiom of block-placement loops.

Two forms are used in GEMSEO::

    c = 0                           lo = hi = 0
    for item in items:              for item in items:
        n = size(item)                  n = size(item)
        use [c : c + n]                 hi += n
        c += n                          use [lo : hi]
                                        lo = hi

The rule checks, for every cursor advanced in a ``for`` loop: it is initialised (and, for a
nested loop, reset inside the enclosing loop body); it is advanced by exactly one statement of
that loop, by an amount that depends on the loop's own item; the advance comes after (form 1) /
before (form 2) every use within an iteration, and in form 2 ``lo = hi`` follows every use.
"""

from __future__ import annotations

import ast

from gv.astutil import names_in
from gv.astutil import norm_stmt
from gv.astutil import unparse
from gv.cfg import cfg_of
from gv.report import Ctx


def _direct_stmts(body: list[ast.stmt]):
    """Statements of a loop body, entering if/with/try but not nested loops or scopes."""
    for s in body:
        yield s
        if isinstance(s, (ast.If,)):
            yield from _direct_stmts(s.body)
            yield from _direct_stmts(s.orelse)
        elif isinstance(s, (ast.With,)):
            yield from _direct_stmts(s.body)
        elif isinstance(s, ast.Try):
            yield from _direct_stmts(s.body)
            for h in s.handlers:
                yield from _direct_stmts(h.body)
            yield from _direct_stmts(s.orelse)
            yield from _direct_stmts(s.finalbody)


def _all_stmts(body: list[ast.stmt]):
    for s in body:
        for n in ast.walk(s):
            if isinstance(n, ast.stmt):
                yield n


def _target_names(t: ast.AST) -> set[str]:
    return {n.id for n in ast.walk(t) if isinstance(n, ast.Name)}


def _dependent_names(loop: ast.For) -> set[str]:
    dep = _target_names(loop.target)
    changed = True
    while changed:
        changed = False
        for s in _all_stmts(loop.body):
            if isinstance(s, ast.Assign) and names_in(s.value) & dep:
                new = set()
                for t in s.targets:
                    new |= _target_names(t)
                if not new <= dep:
                    dep |= new
                    changed = True
            elif isinstance(s, ast.For) and names_in(s.iter) & dep:
                new = _target_names(s.target)
                if not new <= dep:
                    dep |= new
                    changed = True
    return dep


def _loops(func: ast.AST):
    """(loop, parent loop or None) for every for-loop of the function."""
    out = []

    def visit(stmts, parent):
        for s in stmts:
            if isinstance(s, (ast.FunctionDef, ast.AsyncFunctionDef, ast.ClassDef)):
                continue
            if isinstance(s, ast.For):
                out.append((s, parent))
                visit(s.body, s)
                visit(s.orelse, parent)
            else:
                for fld in ("body", "orelse", "finalbody"):
                    visit(getattr(s, fld, []) or [], parent)
                for h in getattr(s, "handlers", []) or []:
                    visit(h.body, parent)

    visit(func.body, None)
    return out


def _augmented(func: ast.AST) -> ast.AST:
    """A copy of the function in which `c = c + e` / `c = e + c` on a plain name is written `c += e` (an integer cursor
    is advanced the same way by both; the copy is only used by this analysis)."""
    import copy

    new = copy.deepcopy(func)

    class T(ast.NodeTransformer):
        def visit_Assign(self, node):  # noqa: N802
            if len(node.targets) == 1 and isinstance(node.targets[0], ast.Name) and isinstance(node.value, ast.BinOp) and isinstance(node.value.op, ast.Add):
                name = node.targets[0].id
                left, right = node.value.left, node.value.right
                if isinstance(left, ast.Name) and left.id == name:
                    return ast.copy_location(ast.AugAssign(target=ast.Name(id=name, ctx=ast.Store()), op=ast.Add(), value=right), node)
                if isinstance(right, ast.Name) and right.id == name:
                    return ast.copy_location(ast.AugAssign(target=ast.Name(id=name, ctx=ast.Store()), op=ast.Add(), value=left), node)
            return node

    new = T().visit(new)
    ast.fix_missing_locations(new)
    return new


def check_cursor_loops(ctx: Ctx, rule: str, con: str, func: ast.AST, *, min_loops: int = 1, only: set[str] | None = None, force: set[str] | None = None) -> int:
    if any(isinstance(s, ast.Assign) and len(s.targets) == 1 and isinstance(s.targets[0], ast.Name) and isinstance(s.value, ast.BinOp) and isinstance(s.value.op, ast.Add) and s.targets[0].id in {getattr(s.value.left, "id", None), getattr(s.value.right, "id", None)} for s in ast.walk(func)):
        func = _augmented(func)
    cfg = cfg_of(func)
    n_cursors = 0
    all_cursor_names: set[str] = set()
    loops = _loops(func)
    for loop, _ in loops:
        for s in _direct_stmts(loop.body):
            if isinstance(s, ast.AugAssign) and isinstance(s.op, ast.Add) and isinstance(s.target, ast.Name):
                all_cursor_names.add(s.target.id)
    for loop, parent in loops:
        head = cfg.node_of(loop)
        start = cfg.branch[(head, True)]
        direct = list(_direct_stmts(loop.body))
        incs: dict[str, list[ast.AugAssign]] = {}
        for s in direct:
            if isinstance(s, ast.AugAssign) and isinstance(s.op, ast.Add) and isinstance(s.target, ast.Name):
                incs.setdefault(s.target.id, []).append(s)
        if not incs:
            continue
        dep = _dependent_names(loop)
        for c, stmts in sorted(incs.items()):
            if only is not None and c not in only:
                continue
            # counters (``n += 1``) are not cursors: a cursor is used in a slice/range of this function
            used_as_bound = any(
                isinstance(n, (ast.Slice,)) and c in names_in(n) or (isinstance(n, ast.Call) and getattr(n.func, "id", None) in ("slice", "range", "arange") and c in names_in(n))
                for n in ast.walk(func)
            )
            copies = [s for s in direct if isinstance(s, ast.Assign) and isinstance(s.value, ast.Name) and s.value.id == c and all(isinstance(t, ast.Name) for t in s.targets)]
            partners = {t.id for s in copies for t in s.targets}
            if c in (force or ()):
                used_as_bound = True
            if not used_as_bound and not any(
                isinstance(n, ast.Slice) and names_in(n) & partners or (isinstance(n, ast.Call) and getattr(n.func, "id", None) in ("slice", "range", "arange") and names_in(n) & partners) for n in ast.walk(func)
            ):
                continue
            n_cursors += 1
            label = f"cursor {c} in for {unparse(loop.target)} in {norm_stmt(loop.iter, 40)}"
            ctx.ob(rule, con, len(stmts) == 1, f"{label}: the cursor is advanced by {len(stmts)} statements of the loop; it must advance exactly once per iteration", node=stmts[-1], stmt=f"{label}: advanced once")
            inc = stmts[0]
            amount_names = names_in(inc.value)
            ok = bool(amount_names & dep)
            ctx.ob(rule, con, ok, f"{label}: the cursor advances by `{unparse(inc.value)}`, which does not depend on the loop's own item ({unparse(loop.target)}): blocks are placed with the size of another variable", node=inc, stmt=f"{label}: advance by own item size")
            inc_n = cfg.node_of(inc)
            # uses
            excluded = {id(inc), *(id(s) for s in copies)}
            use_nodes = set()
            for s in _all_stmts(loop.body):
                if id(s) in excluded or isinstance(s, (ast.For, ast.If, ast.While, ast.With, ast.Try)):
                    continue
                loads = {n.id for n in ast.walk(s) if isinstance(n, ast.Name) and isinstance(n.ctx, ast.Load)}
                if isinstance(s, ast.AugAssign) and isinstance(s.target, ast.Name) and s.target.id in (all_cursor_names - {c}) and not (loads & ({c} | partners)):
                    continue
                if loads & ({c} | partners):
                    # an assignment that only initialises another cursor from this one is not a use
                    if isinstance(s, ast.Assign) and isinstance(s.value, ast.Name) and all(isinstance(t, ast.Name) and t.id in all_cursor_names for t in s.targets):
                        continue
                    use_nodes.add(cfg.node_of(s))
            for hdr in _all_stmts(loop.body):
                if isinstance(hdr, (ast.If, ast.While)) and names_in(hdr.test) & ({c} | partners):
                    use_nodes.add(cfg.node_of(hdr))
            if copies:
                cp_nodes = {cfg.node_of(s) for s in copies}
                for u in sorted(use_nodes):
                    before = cfg.path(start, u, avoid={inc_n}) is None
                    ctx.ob(rule, con, before, f"{label}: the window end is used before it has been advanced in the iteration", node=cfg.ast[u], stmt=f"{label}: advance before use `{norm_stmt(cfg.ast[u], 50)}`")
                    after = cfg.path(u, head, avoid=cp_nodes) is None
                    ctx.ob(rule, con, after, f"{label}: the window start is not moved to the window end after the use on every path", node=cfg.ast[u], stmt=f"{label}: lo = hi after use `{norm_stmt(cfg.ast[u], 50)}`")
                    early = any(cfg.path(cp, u, avoid={head}) is not None for cp in cp_nodes)
                    ctx.ob(rule, con, not early, f"{label}: the window start is moved before the use", node=cfg.ast[u], stmt=f"{label}: lo = hi not before use `{norm_stmt(cfg.ast[u], 50)}`")
                # every path of an iteration moves the start (otherwise skipped items leave a stale window)
                ok = cfg.path(inc_n, head, avoid=cp_nodes) is None
                ctx.ob(rule, con, ok, f"{label}: an iteration can advance the window end without moving the window start", node=inc, stmt=f"{label}: start follows end on every path")
            else:
                for u in sorted(use_nodes):
                    early = cfg.path(inc_n, u, avoid={head}) is not None
                    ctx.ob(rule, con, not early, f"{label}: the cursor is advanced before the block of the current item is placed", node=cfg.ast[u], stmt=f"{label}: advance after use `{norm_stmt(cfg.ast[u], 50)}`")
                    after = cfg.path(u, head, avoid={inc_n}) is None
                    ctx.ob(rule, con, after, f"{label}: after placing a block the cursor is not advanced on every path to the next iteration", node=cfg.ast[u], stmt=f"{label}: advance on every path after `{norm_stmt(cfg.ast[u], 50)}`")
                    # the width of the window equals the advance when written ``c + e``
                    for n in ast.walk(cfg.ast[u]):
                        if isinstance(n, ast.BinOp) and isinstance(n.op, ast.Add) and isinstance(n.left, ast.Name) and n.left.id == c:
                            w = n.right
                            if "shape" in unparse(w):
                                continue
                            ctx.ob(rule, con, ast.dump(w) == ast.dump(inc.value), f"{label}: the window width `{unparse(w)}` differs from the advance `{unparse(inc.value)}`", node=cfg.ast[u], stmt=f"{label}: width equals advance")
            # initialisation / reset
            inits = []
            for s in ast.walk(func):
                if isinstance(s, ast.Assign) and any(isinstance(t, ast.Name) and t.id == c for t in s.targets):
                    if isinstance(s.value, ast.Constant) and s.value.value == 0 or isinstance(s.value, ast.Name):
                        if s not in copies and cfg.has(s):
                            inits.append(s)
            dom_inits = [s for s in inits if cfg.dominates(cfg.node_of(s), head) and cfg.path(cfg.node_of(s), head) is not None]
            ok = bool(dom_inits)
            if ok and parent is not None and c in {t.id for ps in _direct_stmts(parent.body) if isinstance(ps, ast.AugAssign) and isinstance(ps.target, ast.Name) for t in [ps.target]}:
                pass  # the cursor also belongs to the outer loop
            elif ok and parent is not None:
                ph = cfg.node_of(parent)
                pstart = cfg.branch[(ph, True)]
                ok = any(cfg.dominates(pstart, cfg.node_of(s)) for s in dom_inits)
                ctx.ob(rule, con, ok, f"{label}: the cursor of the inner loop is not reset inside the enclosing loop body", node=loop, stmt=f"{label}: reset per outer iteration")
            ctx.ob(rule, con, bool(dom_inits), f"{label}: the cursor is not initialised before the loop", node=loop, stmt=f"{label}: initialised")
    # window start written as ``position * size``: only right when every item has the same size
    n_bad = 0
    for loop, _ in loops:
        it = loop.iter
        if not (isinstance(it, ast.Call) and getattr(it.func, "id", None) == "enumerate" and isinstance(loop.target, ast.Tuple) and len(loop.target.elts) == 2 and isinstance(loop.target.elts[0], ast.Name)):
            continue
        pos = loop.target.elts[0].id
        dep = _dependent_names(loop) - {pos}
        for s in _direct_stmts(loop.body):
            if isinstance(s, ast.Assign) and isinstance(s.targets[0], ast.Name) and isinstance(s.value, ast.BinOp) and isinstance(s.value.op, ast.Mult):
                l, r = s.value.left, s.value.right
                other = r if (isinstance(l, ast.Name) and l.id == pos) else (l if (isinstance(r, ast.Name) and r.id == pos) else None)
                if other is None or not (names_in(other) & dep):
                    continue
                v = s.targets[0].id
                used = any(isinstance(n, ast.Slice) and v in names_in(n) for n in ast.walk(loop))
                if used:
                    n_bad += 1
                    ctx.ob(rule, con, False, f"the window start `{v} = {unparse(s.value)}` is the position of the item times the size of the CURRENT item: blocks are misplaced as soon as the items have different sizes (the start must be the sum of the sizes of the previous items)", node=s, stmt=f"window start of for {unparse(loop.target)} accumulates the previous sizes")
    if n_bad:
        return n_cursors
    ctx.need(n_cursors >= min_loops, f"{con}: expected at least {min_loops} cursor(s), recognised {n_cursors}")
    return n_cursors
