"""Symbolic-constant domain for small arithmetic expressions (a value-numbering style abstraction).

An expression of the source is mapped to a canonical algebraic term over the function's
parameters (``sympy`` is used as the term normaliser; nothing of GEMSEO is imported or run).
Supported: numbers, names, ``+ - * / **``, unary minus, ``float(x)``/``int`` casts as identity,
``exp/log/sqrt``, tuples, calls to *inlinable* helpers (straight-line functions of the repo whose
body is assignments followed by one ``return``).  Anything else yields ``None`` (undecided).

``equal(a, b)`` decides equality of two terms: ``True`` when the difference simplifies to zero,
``False`` when it evaluates to a non-zero number at some sample point (the terms are different
functions), ``None`` otherwise.
"""

from __future__ import annotations

import ast
import random
from fractions import Fraction

import sympy as sp

_FUNCS = {"exp": sp.exp, "log": sp.log, "sqrt": sp.sqrt, "abs": sp.Abs}
_CASTS = {"float", "int"}


def sym(name: str):
    return sp.Symbol(name, real=True)


def to_term(e: ast.AST, env: dict, helpers: dict[str, ast.FunctionDef] | None = None, depth: int = 0):
    """Term of expression ``e`` in environment ``env`` (name -> term or tuple of terms)."""
    helpers = helpers or {}
    if isinstance(e, ast.Constant):
        if isinstance(e.value, bool):
            return None
        if isinstance(e.value, int):
            return sp.Integer(e.value)
        if isinstance(e.value, float):
            return sp.Rational(str(Fraction(e.value).limit_denominator(10**9)))
        return None
    if isinstance(e, ast.Name):
        return env.get(e.id)
    if isinstance(e, ast.Tuple):
        items = [to_term(x, env, helpers, depth) for x in e.elts]
        return None if any(i is None for i in items) else tuple(items)
    if isinstance(e, ast.UnaryOp):
        v = to_term(e.operand, env, helpers, depth)
        if v is None or isinstance(v, tuple):
            return None
        if isinstance(e.op, ast.USub):
            return -v
        if isinstance(e.op, ast.UAdd):
            return v
        return None
    if isinstance(e, ast.BinOp):
        a = to_term(e.left, env, helpers, depth)
        b = to_term(e.right, env, helpers, depth)
        if a is None or b is None or isinstance(a, tuple) or isinstance(b, tuple):
            return None
        if isinstance(e.op, ast.Add):
            return a + b
        if isinstance(e.op, ast.Sub):
            return a - b
        if isinstance(e.op, ast.Mult):
            return a * b
        if isinstance(e.op, ast.Div):
            return a / b
        if isinstance(e.op, ast.Pow):
            return a**b
        return None
    if isinstance(e, ast.Call) and not e.keywords:
        fn = e.func.id if isinstance(e.func, ast.Name) else (e.func.attr if isinstance(e.func, ast.Attribute) else None)
        args = [to_term(a, env, helpers, depth) for a in e.args]
        if fn is None or any(a is None for a in args):
            return None
        if fn in _CASTS and len(args) == 1:
            return args[0]
        if fn in _FUNCS and len(args) == 1 and not isinstance(args[0], tuple):
            return _FUNCS[fn](args[0])
        if fn in helpers and depth < 3:
            return inline(helpers[fn], args, helpers, depth + 1)
        return None
    return None


def inline(func: ast.FunctionDef, args: list, helpers=None, depth: int = 0):
    """Term (or tuple of terms) returned by a straight-line function applied to ``args``."""
    params = [a.arg for a in func.args.args]
    if len(params) != len(args):
        return None
    env = dict(zip(params, args))
    body = [s for s in func.body if not (isinstance(s, ast.Expr) and isinstance(s.value, ast.Constant))]
    for s in body:
        if isinstance(s, ast.Assign) and len(s.targets) == 1:
            if not bind(s.targets[0], to_term(s.value, env, helpers, depth), env):
                return None
        elif isinstance(s, ast.Return):
            return to_term(s.value, env, helpers, depth)
        else:
            return None
    return None


def bind(target: ast.AST, value, env: dict) -> bool:
    if value is None:
        return False
    if isinstance(target, ast.Name):
        env[target.id] = value
        return True
    if isinstance(target, ast.Tuple) and isinstance(value, tuple) and len(value) == len(target.elts):
        return all(bind(t, v, env) for t, v in zip(target.elts, value))
    return False


def equal(a, b, *, positive: tuple[str, ...] = (), constraints=None) -> bool | None:
    """Decide ``a == b`` as functions of their free symbols.

    ``constraints(point) -> bool`` restricts the sample points (e.g. minimum < maximum).
    """
    if a is None or b is None:
        return None
    if isinstance(a, tuple) or isinstance(b, tuple):
        if not (isinstance(a, tuple) and isinstance(b, tuple) and len(a) == len(b)):
            return False
        verdicts = [equal(x, y, positive=positive, constraints=constraints) for x, y in zip(a, b)]
        if any(v is False for v in verdicts):
            return False
        return True if all(v is True for v in verdicts) else None
    d = a - b
    free = sorted(a.free_symbols | b.free_symbols, key=lambda s: s.name)
    pos = {s: sp.Symbol(s.name, positive=True) for s in free if s.name in positive}
    try:
        if sp.simplify(sp.nsimplify(d.subs(pos))) == 0:
            return True
    except Exception:  # noqa: BLE001 -- the normaliser gave up: fall through to identity testing
        pass
    rnd = random.Random(20240519)
    tried = 0
    nonzero = zero = 0
    while tried < 200 and zero + nonzero < 12:
        tried += 1
        point = {s: sp.Rational(rnd.randint(1, 60), rnd.randint(3, 9)) * (1 if s.name in positive or rnd.random() < 0.7 else -1) for s in free}
        if constraints is not None and not constraints({s.name: v for s, v in point.items()}):
            continue
        try:
            val = complex(sp.N(d.subs(point), 30))
        except Exception:  # noqa: BLE001
            continue
        if val != val or abs(val) == float("inf"):
            continue
        try:
            ref = max(1.0, abs(complex(sp.N(a.subs(point), 30))))
        except Exception:  # noqa: BLE001
            ref = 1.0
        if abs(val) > 1e-9 * ref:
            nonzero += 1
        else:
            zero += 1
    if nonzero:
        return False
    if zero >= 8:
        return True  # identity testing: equal at every admissible sample point
    return None
