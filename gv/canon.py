"""Canonical form of calls: arguments bound to the callee's parameters.

For a call whose callee name is defined in ``src/gemseo`` with one consistent signature, keyword arguments that
fill the next positional parameters are moved to positional arguments (``f(a, q=b)`` -> ``f(a, b)`` when ``q`` is the
second parameter), and the full binding ``parameter name -> expression`` is attached to the node as ``_gv_bind``
(``astutil.kwarg`` falls back on it).  A refactoring that switches between keyword and positional style therefore
yields the same tree.  Calls with ``*args``/``**kwargs``, unbound calls (``Class.method(obj, ...)``) and callees
that are not defined in the repository (or whose definitions disagree) are left untouched.
"""

from __future__ import annotations

import ast
import os

FUNC_TYPES = (ast.FunctionDef, ast.AsyncFunctionDef)


def _params(f: ast.FunctionDef, method: bool) -> list[str] | None:
    a = f.args
    if a.vararg is not None:
        return None
    names = [x.arg for x in [*a.posonlyargs, *a.args]]
    decos = {getattr(d, "id", getattr(d, "attr", None)) for d in f.decorator_list}
    if method and "staticmethod" not in decos and names and names[0] in ("self", "cls"):
        names = names[1:]
    return names


def build_signatures(modules):
    """name -> parameter names, for methods, module-level functions and classes (through ``__init__``); only unambiguous names.

    Methods and functions are kept apart: ``obj.name(...)`` is only bound through a METHOD called ``name`` (a
    third-party method that happens to have the name of a GEMSEO function is not touched).
    """
    funcs: dict[str, list[list[str]]] = {}
    methods: dict[str, list[list[str]]] = {}
    classes: dict[str, list[list[str]]] = {}

    def visit(node, in_class):
        for ch in ast.iter_child_nodes(node):
            if isinstance(ch, ast.ClassDef):
                init = next((m for m in ch.body if isinstance(m, FUNC_TYPES) and m.name == "__init__"), None)
                bases = {getattr(b, "id", getattr(b, "attr", None)) for b in ch.bases}
                decos = {getattr(d, "id", getattr(d, "attr", None)) or getattr(getattr(d, "func", None), "id", None) for d in ch.decorator_list}
                if init is not None:
                    p = _params(init, True)
                    classes.setdefault(ch.name, []).append(p)
                elif "NamedTuple" in bases or "dataclass" in decos:
                    fields = [m.target.id for m in ch.body if isinstance(m, ast.AnnAssign) and isinstance(m.target, ast.Name) and "ClassVar" not in ast.unparse(m.annotation)]
                    classes.setdefault(ch.name, []).append(fields)
                else:
                    classes.setdefault(ch.name, []).append(None)  # inherited constructor: unknown here
                visit(ch, True)
            elif isinstance(ch, FUNC_TYPES):
                if any(getattr(d, "id", getattr(d, "attr", None)) in ("overload", "setter", "deleter") for d in ch.decorator_list):
                    continue
                (methods if in_class else funcs).setdefault(ch.name, []).append(_params(ch, in_class))
                visit(ch, False)
            elif isinstance(ch, (ast.If, ast.Try, ast.With)):
                visit(ch, in_class)

    for mod in modules:
        visit(mod.tree, False)

    def settle(table):
        out = {}
        for name, sigs in table.items():
            if any(s is None for s in sigs):
                continue
            longest = max(sigs, key=len)
            # all definitions agree on the position of every parameter they share with the longest one
            if all(s == longest[: len(s)] for s in sigs):
                out[name] = longest if len({tuple(s) for s in sigs}) == 1 else min(sigs, key=len)
        return out

    m = settle(methods)
    # a method name that is also the name of a module-level function is too ambiguous for receivers of unknown type
    return ({"functions": settle(funcs), "methods": {k: v for k, v in m.items() if k not in funcs}}, settle(classes))


def canonicalise_calls(tree: ast.AST, funcs: dict[str, list[str]], classes: dict[str, list[str]]) -> int:
    n = 0
    for call in ast.walk(tree):
        if not isinstance(call, ast.Call) or getattr(call, "_gv_done", False):
            continue
        call._gv_done = True
        if any(isinstance(a, ast.Starred) for a in call.args):
            continue
        f = call.func
        params = None
        if isinstance(f, ast.Name):
            params = classes.get(f.id) if f.id[:1].isupper() else funcs["functions"].get(f.id)
            if params is None and f.id in classes:
                params = classes[f.id]
        elif isinstance(f, ast.Attribute):
            recv = f.value
            if isinstance(recv, ast.Name) and recv.id[:1].isupper() and recv.id in classes:
                continue  # Class.method(obj, ...): unbound call, positions are shifted
            if f.attr.startswith("__") and f.attr.endswith("__") and f.attr != "__init__":
                continue
            if f.attr == "__init__":
                continue
            params = funcs["methods"].get(f.attr)
            if params is None and f.attr[:1].isupper():
                params = classes.get(f.attr)  # self.Solution(...): a class held as attribute
        if not params:
            continue
        if len(call.args) > len(params):
            continue
        bind = {params[i]: a for i, a in enumerate(call.args)}
        unknown = [k for k in call.keywords if k.arg not in params]
        for k in call.keywords:
            if k.arg is not None and k.arg in params and k.arg not in bind:
                bind[k.arg] = k.value
        # move the keywords that fill the next positions
        args = list(call.args)
        kws = list(call.keywords)
        moved = True
        while moved and len(args) < len(params):
            moved = False
            nxt = params[len(args)]
            for k in kws:
                if k.arg == nxt:
                    args.append(k.value)
                    kws.remove(k)
                    moved = True
                    n += 1
                    break
        call.args, call.keywords = args, kws
        call._gv_bind = bind
        del unknown
    return n


# --------------------------------------------------------------------------------------------------------------
# Local variables relative to the reference tree
#
# ``refnames.json`` (generated by tools/gen_refnames.py from the tree the rules were confirmed on) lists, for every
# function, its local variables with the *shape* of their definitions (the defining expression with local names
# abstracted).  When the analysed function has locals the reference does not know:
#   * a new name whose definitions have the shape of a reference name that disappeared is that variable renamed:
#     it is renamed back (a bijective renaming of locals does not change behaviour);
#   * any other new name defined once by an expression is an extracted sub-expression: it is inlined at its uses when
#     that provably keeps the behaviour (no intervening re-assignment of what the expression reads).
# Nothing is done when the locals are those of the reference, so the reference tree is a fixpoint.  The
# normalisation never decides a verdict; it maps refactored code back to the shape the rules were written for.


def _own_nodes(func: ast.AST):
    """Nodes of the function body, not entering nested function/class scopes."""
    stack = list(ast.iter_child_nodes(func))
    while stack:
        n = stack.pop()
        if isinstance(n, (*FUNC_TYPES, ast.ClassDef, ast.Lambda)):
            continue
        yield n
        stack.extend(ast.iter_child_nodes(n))


def _store_names(t: ast.AST):
    for n in ast.walk(t):
        if isinstance(n, ast.Name) and isinstance(n.ctx, ast.Store):
            yield n.id


def local_defs(func: ast.AST) -> dict[str, list[tuple[str, ast.AST | None, ast.stmt]]]:
    """name -> [(kind, defining expression or None, statement)] for names stored in the function (parameters excluded)."""
    params = {a.arg for a in [*func.args.posonlyargs, *func.args.args, *func.args.kwonlyargs]}
    if func.args.vararg:
        params.add(func.args.vararg.arg)
    if func.args.kwarg:
        params.add(func.args.kwarg.arg)
    out: dict[str, list] = {}
    for n in _own_nodes(func):
        if isinstance(n, ast.Assign):
            for t in n.targets:
                if isinstance(t, ast.Name):
                    out.setdefault(t.id, []).append(("assign", n.value, n))
                else:
                    for name in _store_names(t):
                        out.setdefault(name, []).append(("unpack", n.value, n))
        elif isinstance(n, ast.AnnAssign) and isinstance(n.target, ast.Name) and n.value is not None:
            out.setdefault(n.target.id, []).append(("assign", n.value, n))
        elif isinstance(n, ast.AugAssign) and isinstance(n.target, ast.Name):
            out.setdefault(n.target.id, []).append(("aug", n.value, n))
        elif isinstance(n, (ast.For, ast.AsyncFor)):
            for name in _store_names(n.target):
                out.setdefault(name, []).append(("for", n.iter, n))
        elif isinstance(n, (ast.With, ast.AsyncWith)):
            for it in n.items:
                if it.optional_vars is not None:
                    for name in _store_names(it.optional_vars):
                        out.setdefault(name, []).append(("with", it.context_expr, n))
        elif isinstance(n, ast.NamedExpr):
            out.setdefault(n.target.id, []).append(("assign", n.value, None))
        elif isinstance(n, ast.comprehension):
            for name in _store_names(n.target):
                out.setdefault(name, []).append(("comp", n.iter, None))
        elif isinstance(n, ast.ExceptHandler) and n.name:
            out.setdefault(n.name, []).append(("except", None, n))
    # a parameter that is re-assigned in the body is kept: its new definitions identify it like any local
    return {k: v for k, v in out.items() if k not in params or any(kind in ("assign", "aug") for kind, _, _ in v)}


def _shape(kind: str, e: ast.AST | None, local_names: set[str]) -> str:
    if e is None:
        return kind
    import copy

    e2 = copy.deepcopy(e)
    for n in ast.walk(e2):
        if isinstance(n, ast.Name) and n.id in local_names:
            n.id = "_"
    try:
        txt = ast.unparse(e2)
    except Exception:  # noqa: BLE001
        txt = "?"
    return f"{kind}:{txt}"


def shapes_of(func: ast.AST) -> dict[str, list[str]]:
    defs = local_defs(func)
    names = set(defs)
    return {k: sorted(_shape(kind, e, names) for kind, e, _ in v) for k, v in defs.items()}


def _rename(func: ast.AST, mapping: dict[str, str]) -> None:
    for n in ast.walk(func):
        if isinstance(n, ast.Name) and n.id in mapping:
            n.id = mapping[n.id]
        elif isinstance(n, ast.ExceptHandler) and n.name in mapping:
            n.name = mapping[n.name]


def _is_pure(e: ast.AST) -> bool:
    return not any(isinstance(n, (ast.Call, ast.Await, ast.Yield, ast.YieldFrom, ast.NamedExpr, ast.Lambda, ast.ListComp, ast.SetComp, ast.DictComp, ast.GeneratorExp)) for n in ast.walk(e))


# --------------------------------------------------------------------------------------------------------------
# Quiet callees: functions and methods that can be evaluated twice instead of once without anybody noticing
#
# A definition is quiet when, syntactically, it stores into nothing but its own fresh locals, has no global/nonlocal/
# with/yield/await/del, and calls only (a) a closed list of side-effect-free builtins and numpy functions, (b)
# read-only methods of containers and arrays, (c) mutating container methods on its own fresh locals, (d) other
# quiet callees (fixpoint over names: a NAME is quiet when every definition with that name in the tree is).

QUIET_BUILTINS = {
    "len", "isinstance", "issubclass", "tuple", "list", "dict", "set", "frozenset", "sorted", "zip", "enumerate", "range", "min", "max", "sum", "any", "all", "str", "int", "float", "bool", "complex", "getattr", "hasattr", "abs", "round", "reversed", "map", "filter", "type", "id", "repr", "iter", "callable", "divmod", "pow", "hash",
    "array", "asarray", "atleast_1d", "atleast_2d", "concatenate", "hstack", "vstack", "zeros", "ones", "full", "empty", "zeros_like", "ones_like", "full_like", "where", "arange", "linspace", "isinf", "isnan", "isfinite", "logical_and", "logical_or", "logical_not", "array_equal", "allclose", "isclose", "np_array", "np_abs", "np_sum", "np_max", "np_min", "np_any", "np_all", "np_round", "np_isnan", "np_isinf", "absolute", "sqrt", "exp", "log", "dot", "matmul", "tile", "repeat", "eye", "diag", "ravel", "reshape", "nonzero", "flatnonzero", "isin", "unique", "argsort", "argmin", "argmax", "cumsum", "ndim", "shape", "size", "real", "imag", "copy", "deepcopy", "norm", "inf", "issparse", "cast", "partial", "chain", "Counter", "defaultdict", "OrderedDict", "Path", "compress", "count_nonzero", "vectorize", "equal", "not_equal", "greater", "less", "maximum", "minimum", "floor", "ceil", "mod",
}
QUIET_READ_METHODS = {
    "get", "items", "keys", "values", "copy", "astype", "index", "count", "startswith", "endswith", "join", "format", "split", "rsplit", "strip", "lstrip", "rstrip", "lower", "upper", "replace", "encode", "decode", "isdigit", "partition", "rpartition", "title", "capitalize",
    "sum", "dot", "max", "min", "any", "all", "reshape", "ravel", "tolist", "flatten", "mean", "std", "var", "prod", "argmax", "argmin", "argsort", "nonzero", "transpose", "squeeze", "conj", "conjugate", "round", "clip", "cumsum", "item", "view", "toarray", "todense", "tocsr", "tocsc", "tocoo", "getnnz", "diagonal", "trace", "issubset", "issuperset", "isdisjoint", "union", "intersection", "difference", "symmetric_difference",
    "debug", "info", "warning", "is_integer", "as_posix", "exists", "is_file", "is_dir", "with_suffix", "with_name", "resolve", "__len__", "__contains__", "__getitem__", "__iter__", "__eq__", "__hash__",
}
LOCAL_MUTATORS = {"append", "extend", "update", "pop", "clear", "add", "remove", "insert", "sort", "setdefault", "discard", "fill", "resize", "popitem", "reverse", "appendleft", "popleft", "intersection_update", "difference_update", "put", "itemset", "setflags"}


def _quiet_local(fn: ast.AST) -> tuple[bool, set[str], set[str]]:
    """(no effect visible outside apart from those of the callees, method names needed quiet, function names needed quiet)."""
    params = {a.arg for a in [*fn.args.posonlyargs, *fn.args.args, *fn.args.kwonlyargs]}
    if fn.args.vararg:
        params.add(fn.args.vararg.arg)
    if fn.args.kwarg:
        params.add(fn.args.kwarg.arg)
    own = list(_own_nodes(fn))
    if any(isinstance(n, (ast.Global, ast.Nonlocal, ast.With, ast.AsyncWith, ast.Yield, ast.YieldFrom, ast.Await, ast.Delete, ast.Import, ast.ImportFrom, *FUNC_TYPES, ast.ClassDef, ast.Lambda)) for n in own if n is not fn):
        return False, set(), set()
    # locals that may alias something reachable from outside: assigned from a name / attribute / item (possibly under
    # a conditional), or bound by a loop / comprehension over anything
    stored = {}
    for n in own:
        if isinstance(n, ast.Assign):
            for t in n.targets:
                for nm in ast.walk(t):
                    if isinstance(nm, ast.Name) and isinstance(nm.ctx, ast.Store):
                        stored.setdefault(nm.id, []).append(n.value if isinstance(t, ast.Name) else None)
        elif isinstance(n, (ast.AnnAssign,)) and isinstance(n.target, ast.Name):
            stored.setdefault(n.target.id, []).append(n.value)
        elif isinstance(n, ast.AugAssign) and isinstance(n.target, ast.Name):
            stored.setdefault(n.target.id, []).append(None)
        elif isinstance(n, (ast.For, ast.AsyncFor, ast.comprehension)):
            for nm in ast.walk(n.target):
                if isinstance(nm, ast.Name):
                    stored.setdefault(nm.id, []).append(None)
        elif isinstance(n, ast.NamedExpr):
            stored.setdefault(n.target.id, []).append(None)
        elif isinstance(n, ast.ExceptHandler) and n.name:
            stored.setdefault(n.name, []).append(None)

    def fresh_expr(e):
        return isinstance(e, (ast.Call, ast.Constant, ast.List, ast.Dict, ast.Set, ast.Tuple, ast.ListComp, ast.DictComp, ast.SetComp, ast.BinOp, ast.UnaryOp, ast.Compare, ast.JoinedStr)) and not (isinstance(e, ast.Call) and isinstance(e.func, ast.Attribute) and e.func.attr in ("get", "setdefault", "pop", "view", "reshape", "ravel", "transpose", "squeeze"))

    fresh = {name for name, vals in stored.items() if name not in params and all(v is not None and fresh_expr(v) for v in vals)}

    def root(e):
        while isinstance(e, (ast.Attribute, ast.Subscript)):
            e = e.value
        return e.id if isinstance(e, ast.Name) else None

    mneeds, fneeds = set(), set()
    for n in own:
        if isinstance(n, (ast.Assign, ast.AugAssign, ast.AnnAssign)):
            tgts = n.targets if isinstance(n, ast.Assign) else [n.target]
            for t in tgts:
                for sub in ast.walk(t):
                    if isinstance(sub, (ast.Attribute, ast.Subscript)) and isinstance(sub.ctx, ast.Store) and root(sub) not in fresh:
                        return False, set(), set()
            if isinstance(n, ast.AugAssign) and isinstance(n.target, ast.Name) and n.target.id not in fresh and n.target.id in params:
                return False, set(), set()  # ``param += x`` may be in place
        elif isinstance(n, ast.Call):
            f = n.func
            if isinstance(f, ast.Name):
                if f.id in QUIET_BUILTINS or f.id in ("super",):
                    continue
                if f.id[:1].isupper():
                    if f.id.endswith(("Error", "Exception", "Warning")):
                        continue
                    return False, set(), set()
                fneeds.add(f.id)
            elif isinstance(f, ast.Attribute):
                r = root(f)
                if f.attr in LOCAL_MUTATORS:
                    if r in fresh and isinstance(f.value, ast.Name):
                        continue
                    return False, set(), set()
                if f.attr in QUIET_READ_METHODS:
                    continue
                if isinstance(f.value, ast.Name) and f.value.id in ("numpy", "np", "math", "operator", "itertools") and f.attr in QUIET_BUILTINS | {"prod", "floor", "ceil", "isclose", "chain", "product"}:
                    continue
                if f.attr[:1].isupper():
                    return False, set(), set()
                mneeds.add(f.attr)
            else:
                return False, set(), set()
    return True, mneeds, fneeds


def quiet_collect(tree: ast.Module) -> list[tuple[str, str, bool, frozenset, frozenset]]:
    out = []

    def visit(node, in_class):
        for ch in ast.iter_child_nodes(node):
            if isinstance(ch, ast.ClassDef):
                visit(ch, True)
            elif isinstance(ch, FUNC_TYPES):
                decos = {getattr(d, "id", getattr(d, "attr", None)) for d in ch.decorator_list}
                if "overload" in decos:
                    continue
                if decos & {"property", "cached_property", "setter", "deleter"}:
                    continue
                ok, mn, fn_ = _quiet_local(ch)
                out.append(("m" if in_class else "f", ch.name, ok, frozenset(mn), frozenset(fn_)))
            elif isinstance(ch, (ast.If, ast.Try)):
                visit(ch, in_class)

    visit(tree, False)
    return out


def quiet_settle(entries) -> tuple[frozenset, frozenset]:
    """Greatest fixpoint: start from every defined name, remove a name while one of its definitions is not quiet."""
    defs = {"m": {}, "f": {}}
    for kind, name, ok, mn, fn_ in entries:
        defs[kind].setdefault(name, []).append((ok, mn, fn_))
    quiet = {"m": set(defs["m"]), "f": set(defs["f"])}
    changed = True
    while changed:
        changed = False
        for kind in ("m", "f"):
            for name in list(quiet[kind]):
                for ok, mn, fn_ in defs[kind][name]:
                    if not ok or not mn <= quiet["m"] or not fn_ <= quiet["f"]:
                        quiet[kind].discard(name)
                        changed = True
                        break
    return frozenset(quiet["m"]), frozenset(quiet["f"])


QUIET: tuple[frozenset, frozenset] = (frozenset(), frozenset())


def _quiet_expr(e: ast.AST) -> bool:
    """Pure apart from calls of quiet callees / builtins / read-only methods."""
    for n in ast.walk(e):
        if isinstance(n, (ast.Await, ast.Yield, ast.YieldFrom, ast.NamedExpr, ast.Lambda)):
            return False
        if isinstance(n, ast.Call):
            f = n.func
            if isinstance(f, ast.Name):
                if not (f.id in QUIET_BUILTINS or f.id in QUIET[1]):
                    return False
            elif isinstance(f, ast.Attribute):
                if f.attr in LOCAL_MUTATORS or not (f.attr in QUIET_READ_METHODS or f.attr in QUIET[0]):
                    return False
            else:
                return False
    return True


def _quiet_stmt(s: ast.stmt) -> bool:
    """A statement between a definition and its uses that cannot change what a quiet expression returns."""
    if not isinstance(s, (ast.Assign, ast.AnnAssign, ast.Expr, ast.If, ast.Return, ast.Pass, ast.Raise, ast.Assert)):
        return False
    for n in ast.walk(s):
        if isinstance(n, (ast.Attribute, ast.Subscript)) and isinstance(n.ctx, (ast.Store, ast.Del)):
            return False
        if isinstance(n, (ast.AugAssign, ast.For, ast.While, ast.With, ast.Try, ast.Delete)):
            return False
    return all(_quiet_expr(x) for x in ast.iter_child_nodes(s) if isinstance(x, ast.expr)) and all(_quiet_stmt(x) for fld in ("body", "orelse") for x in getattr(s, fld, []) if isinstance(x, ast.stmt))


def _blocks(func: ast.AST):
    """Every statement list of the function (not entering nested scopes)."""
    stack = [func]
    while stack:
        n = stack.pop()
        for fld in ("body", "orelse", "finalbody"):
            b = getattr(n, fld, None)
            if isinstance(b, list) and b and isinstance(b[0], ast.stmt):
                yield b
                for s in b:
                    if not isinstance(s, (*FUNC_TYPES, ast.ClassDef)):
                        stack.append(s)
        for h in getattr(n, "handlers", []) or []:
            stack.append(h)
        for c in getattr(n, "cases", []) or []:
            stack.append(c)


def _try_inline(func: ast.AST, name: str, defs: dict) -> bool:
    import copy

    d = defs.get(name, [])
    if len(d) != 1 or d[0][0] != "assign" or d[0][2] is None or not isinstance(d[0][2], ast.Assign) or len(d[0][2].targets) != 1:
        return False
    stmt, expr = d[0][2], d[0][1]
    block = next((b for b in _blocks(func) if any(s is stmt for s in b)), None)
    if block is None:
        return False
    i = next(k for k, s in enumerate(block) if s is stmt)
    uses = [n for n in _own_nodes(func) if isinstance(n, ast.Name) and n.id == name and isinstance(n.ctx, ast.Load)]
    if not uses:
        return False
    after = block[i + 1 :]
    inside = {id(n) for s in after for n in ast.walk(s)}
    if not all(id(u) in inside for u in uses):
        return False  # used outside the statements that follow the definition in its block
    # the object the local names must not be mutated through the local: `d = {...}; d[k] = v` / `d.update(..)` / `d += ..`
    use_ids = {id(u) for u in uses}
    is_path = isinstance(expr, (ast.Name, ast.Attribute)) and _is_pure(expr)  # an alias of something that exists: writing through it is writing there
    for n in ([] if is_path else _own_nodes(func)):
        if isinstance(n, (ast.Subscript, ast.Attribute)) and isinstance(n.ctx, (ast.Store, ast.Del)) and id(n.value) in use_ids:
            return False
        if isinstance(n, ast.Call) and isinstance(n.func, ast.Attribute) and id(n.func.value) in use_ids and n.func.attr in LOCAL_MUTATORS:
            return False
        if isinstance(n, ast.AugAssign) and isinstance(n.target, ast.Name) and n.target.id == name:
            return False
    # a fresh mutable object used at several places is ONE object: copies of the display would be several
    if len(uses) > 1 and any(isinstance(n, (ast.List, ast.Dict, ast.Set, ast.ListComp, ast.DictComp, ast.SetComp, ast.GeneratorExp)) for n in [expr]):
        return False
    free = {n.id for n in ast.walk(expr) if isinstance(n, ast.Name)}
    attrs = {ast.unparse(n) for n in ast.walk(expr) if isinstance(n, (ast.Attribute, ast.Subscript))}
    # statements up to the last use
    last = max(k for k, s in enumerate(after) if any(id(u) in {id(n) for n in ast.walk(s)} for u in uses))
    span = after[: last + 1]
    if _is_pure(expr):
        if not is_path and free:
            # a computed value (`flag = name in self.names`, `t = a + b`) is moved to its uses: nothing that runs between
            # the definition and a use may change what the expression reads -- not only by a store (below) but by a call
            # that is handed, or is made on, something the expression reads (`self.names.remove(name)`, `a.fill(0)`)
            ids_of = lambda s: {id(n) for n in ast.walk(s)}  # noqa: E731
            with_use = [k for k, s in enumerate(span) if any(id(u) in ids_of(s) for u in uses)]
            for k, s in enumerate(span):
                if k == with_use[-1]:
                    if not isinstance(s, (ast.If, ast.For, ast.AsyncFor, ast.While, ast.With, ast.Try)):
                        continue  # the last use sits in a simple statement
                    head = ids_of(s.test) if isinstance(s, ast.If) else ids_of(s.iter) if isinstance(s, (ast.For, ast.AsyncFor)) else set()
                    if all(id(u) in head for u in uses if id(u) in ids_of(s)):
                        continue  # ... or in the header of a compound one, evaluated before its body
                for c_ in ast.walk(s):
                    if isinstance(c_, ast.Call) and not _quiet_expr(c_) and any(isinstance(n, ast.Name) and n.id in free for n in ast.walk(c_)):
                        return False
        for s in span:
            skip = set()
            if s is span[-1] and isinstance(s, (ast.Assign, ast.AnnAssign)) and s.value is not None:
                # the right-hand side is evaluated before the targets are stored: a target re-assigning what the
                # expression reads is harmless when every use in this last statement is in the right-hand side
                in_value = {id(n) for n in ast.walk(s.value)}
                if all(id(u) in in_value for u in uses if id(u) in {id(n) for n in ast.walk(s)}):
                    for t in (s.targets if isinstance(s, ast.Assign) else [s.target]):
                        if isinstance(t, ast.Name):
                            skip.add(id(t))
            for n in ast.walk(s):
                if isinstance(n, ast.Name) and isinstance(n.ctx, ast.Store) and n.id in free and id(n) not in skip:
                    return False
                if isinstance(n, (ast.Attribute, ast.Subscript)) and isinstance(n.ctx, (ast.Store, ast.Del)) and any(ast.unparse(n).startswith(a) or a.startswith(ast.unparse(n)) for a in attrs):
                    return False
            if isinstance(s, (ast.For, ast.While)) and any(id(u) in {id(n) for n in ast.walk(s)} for u in uses) and any(isinstance(n, ast.Name) and isinstance(n.ctx, ast.Store) and n.id in free for n in ast.walk(s)):
                return False
    elif len(uses) > 1 and _quiet_expr(expr) and all(_quiet_stmt(s) for s in span) and not any(isinstance(n, ast.Name) and isinstance(n.ctx, ast.Store) and n.id in free for s in span for n in ast.walk(s)):
        pass  # evaluated several times instead of once: nobody can tell (quiet callees, nothing stored in between)
    else:
        # an expression with calls: only when it is used once, after statements that neither call anything nor store
        # into attributes/items (so that moving the evaluation down cannot change what it sees), outside any loop
        if len(uses) != 1:
            return False
        for s in span[:-1]:
            if any(isinstance(n, (ast.Call, ast.Await, ast.Yield, ast.YieldFrom)) for n in ast.walk(s)) or any(isinstance(n, (ast.Attribute, ast.Subscript)) and isinstance(n.ctx, (ast.Store, ast.Del)) for n in ast.walk(s)) or isinstance(s, (ast.For, ast.While, ast.If, ast.Try, ast.With, ast.Return, ast.Raise)):
                return False
            if any(isinstance(n, ast.Name) and isinstance(n.ctx, ast.Store) and n.id in free for n in ast.walk(s)):
                return False
        tail = span[-1]
        if isinstance(tail, (ast.For, ast.While, ast.AsyncFor)):
            head = tail.iter if hasattr(tail, "iter") else tail.test
            if id(uses[0]) not in {id(n) for n in ast.walk(head)}:
                return False
        elif isinstance(tail, (ast.If,)):
            if id(uses[0]) not in {id(n) for n in ast.walk(tail.test)}:
                return False
        elif isinstance(tail, (ast.Try, ast.With)):
            return False
    # replace
    class R(ast.NodeTransformer):
        def visit_Name(self, n):  # noqa: N802
            if n.id == name and isinstance(n.ctx, ast.Load):
                return ast.copy_location(copy.deepcopy(expr), n)
            return n

        def visit_FunctionDef(self, n):  # noqa: N802
            return n

        visit_AsyncFunctionDef = visit_Lambda = visit_ClassDef = visit_FunctionDef

    for k, s in enumerate(after):
        after[k] = R().visit(s)
    block[i + 1 :] = after
    del block[i]
    if not block:
        block.append(ast.copy_location(ast.Pass(), stmt))
    ast.fix_missing_locations(func)
    return True


def normalise_locals(func: ast.AST, ref: dict[str, list[str]]) -> tuple[dict[str, str], list[str]]:
    """Rename / inline the locals that the reference does not know. Returns (renames, inlined names)."""
    cur = shapes_of(func)
    new = [n for n in cur if n not in ref]
    if not new:
        return {}, []
    missing = [n for n in ref if n not in cur]
    mapping: dict[str, str] = {}
    # order of first definition, to break ties between equal shapes
    order = {}
    for n in _own_nodes(func):
        if isinstance(n, ast.Name) and isinstance(n.ctx, ast.Store) and n.id not in order:
            order[n.id] = (getattr(n, "lineno", 0), getattr(n, "col_offset", 0))
    for n_new in sorted(new, key=lambda x: order.get(x, (0, 0))):
        cands = [m for m in missing if m not in mapping.values() and ref[m] == cur[n_new]]
        if len(cands) >= 1:
            mapping[n_new] = cands[0]
    params = {a.arg for a in [*func.args.posonlyargs, *func.args.args, *func.args.kwonlyargs]}
    for n_new, tgt in list(mapping.items()):
        if tgt in params:
            # renaming a local to the name of a parameter (today's code re-assigns the parameter): only when every
            # read of the parameter happens before/in the definition of the local, so that no later read changes meaning
            defs = local_defs(func).get(n_new, [])
            first_def = min((getattr(st, "lineno", 10**9) for _, _, st in defs if st is not None), default=None)
            reads = [n for n in _own_nodes(func) if isinstance(n, ast.Name) and n.id == tgt and isinstance(n.ctx, ast.Load)]
            if first_def is None or any(getattr(r, "lineno", 0) > max((getattr(st, "end_lineno", 0) for _, _, st in defs if st is not None and getattr(st, "lineno", 0) == first_def), default=0) for r in reads):
                del mapping[n_new]
    if mapping and not (set(mapping.values()) & (set(cur) - set(mapping))):
        _rename(func, mapping)
    else:
        mapping = {}
    inlined = []
    for n_new in new:
        if n_new in mapping:
            continue
        defs = local_defs(func)
        if _try_inline(func, n_new, defs):
            inlined.append(n_new)
    return mapping, inlined


def reextract_locals(func: ast.AST, ref: dict[str, list[str]]) -> list[str]:
    """A local of the reference that was inlined away (``v = e; f(v)`` -> ``f(e)``) is introduced again.

    Only for a reference local with one plain assignment whose expression (locals abstracted) occurs exactly once in
    the function, inside a simple statement: ``v = e`` is inserted right before that statement and the occurrence is
    replaced by ``v`` (the value is computed at the same place, so behaviour is unchanged).
    """
    import copy

    done = []
    for _ in range(6):
        cur_defs = local_defs(func)
        names = set(cur_defs) | set(ref)
        missing = [m for m in ref if m not in cur_defs and len(ref[m]) == 1 and ref[m][0].startswith("assign:") and not ref[m][0].startswith("assign:_")]
        if not missing:
            break
        progressed = False
        for m in missing:
            want = ref[m][0][len("assign:") :]
            if len(want) < 8 or want in ("None", "True", "False", "[]", "{}", "0", "1", "()"):
                continue
            hits = []
            for block in _blocks(func):
                for k, st in enumerate(block):
                    if not isinstance(st, (ast.Assign, ast.AugAssign, ast.Expr, ast.Return, ast.AnnAssign)):
                        continue
                    scoped = {id(x) for c_ in ast.walk(st) if isinstance(c_, (ast.ListComp, ast.SetComp, ast.DictComp, ast.GeneratorExp, ast.Lambda)) for x in ast.walk(c_) if x is not c_}
                    for n in ast.walk(st):
                        if id(n) in scoped:
                            continue  # evaluated in the scope of a comprehension / lambda: cannot be hoisted out of it
                        if isinstance(n, ast.expr) and not isinstance(n, (ast.Name, ast.Constant)) and not isinstance(getattr(n, "ctx", None), (ast.Store, ast.Del)):
                            if _shape("assign", n, names)[len("assign:") :] == want:
                                hits.append((block, k, st, n))
            # nested matches of the same text inside one another count once (outermost)
            if len(hits) != 1:
                continue
            block, k, st, node = hits[0]
            if isinstance(st, ast.Assign) and st.value is node and len(st.targets) == 1 and isinstance(st.targets[0], ast.Name):
                continue  # it IS a plain assignment (to another name): a rename, handled elsewhere
            if m in {x.id for x in ast.walk(func) if isinstance(x, ast.Name)}:
                continue
            new_assign = ast.copy_location(ast.Assign(targets=[ast.Name(id=m, ctx=ast.Store())], value=copy.deepcopy(node)), st)

            class R(ast.NodeTransformer):
                def visit(self, n):  # noqa: A003
                    if n is node:
                        return ast.copy_location(ast.Name(id=m, ctx=ast.Load()), n)
                    return super().visit(n)

            block[k] = R().visit(st)
            block.insert(k, new_assign)
            ast.fix_missing_locations(func)
            done.append(m)
            progressed = True
            break
        if not progressed:
            break
    return done



def canonicalise_tests(tree: ast.AST) -> int:
    """``if not c: A else: B`` -> ``if c: B else: A`` (also for conditional expressions), so that guard-clause and
    nested styles, and a test and its negation with swapped branches, give the same branch conditions."""
    n = 0
    for node in ast.walk(tree):
        if isinstance(node, ast.If) and isinstance(node.test, ast.UnaryOp) and isinstance(node.test.op, ast.Not):
            node.test = node.test.operand
            body, orelse = node.body, node.orelse
            node.body = orelse or [ast.copy_location(ast.Pass(), node)]
            node.orelse = body
            n += 1
        elif isinstance(node, ast.IfExp) and isinstance(node.test, ast.UnaryOp) and isinstance(node.test.op, ast.Not):
            node.test = node.test.operand
            node.body, node.orelse = node.orelse, node.body
            n += 1
        # a negative comparison with both branches: ``if a is not None: A else: B`` -> ``if a is None: B else: A``
        elif isinstance(node, (ast.If, ast.IfExp)) and isinstance(node.test, ast.Compare) and len(node.test.ops) == 1 and isinstance(node.test.ops[0], (ast.IsNot, ast.NotEq, ast.NotIn)) and node.orelse:
            if isinstance(node, ast.If) and len(node.orelse) == 1 and isinstance(node.orelse[0], ast.If):
                continue  # an elif chain keeps its order
            pos = {ast.IsNot: ast.Is, ast.NotEq: ast.Eq, ast.NotIn: ast.In}[type(node.test.ops[0])]
            node.test.ops = [pos()]
            node.body, node.orelse = node.orelse, node.body
            n += 1
    return n



def dotted_name(e: ast.AST) -> str | None:
    return e.id if isinstance(e, ast.Name) else None


def qualified_uses(tree: ast.Module, imports: dict[str, str]) -> list[str]:
    """Resolved targets of the attribute chains rooted at an imported name (``numpy.multiply``, ``np.linalg.norm``)."""
    out = set()
    for n in ast.walk(tree):
        if isinstance(n, ast.Attribute):
            parts = []
            e = n
            while isinstance(e, ast.Attribute):
                parts.append(e.attr)
                e = e.value
            if isinstance(e, ast.Name) and e.id in imports:
                out.add(".".join([imports[e.id], *reversed(parts)]))
    return sorted(out)


def normalise_imports(tree: ast.Module, cur: dict[str, str], ref: dict[str, str], ref_qualified: frozenset = frozenset()) -> list[str]:
    """Give imported things the local name the reference module gives them.

    ``from numpy import where as np_where`` (reference: ``from numpy import where``), ``import numpy as np`` +
    ``np.where(..)``, ``numpy.where(..)``, ``gemseo.algos.x.Y(..)``: the rules, the shape tables and the quiet-callee
    table know an imported function by the name the reference module uses. ``cur`` / ``ref`` map local names to
    qualified targets (``gv.index._collect_imports``). A name is only rewritten when the reference name is not bound
    to anything else in the current module. Qualified numpy functions the reference does not import at all become
    their bare name (the engine's tables are keyed by bare names), unless that name is a builtin or bound.
    """
    import builtins

    done: list[str] = []
    by_target: dict[str, list[str]] = {}
    for name, tgt in ref.items():
        by_target.setdefault(tgt, []).append(name)
    inv = {t: ns[0] for t, ns in by_target.items() if len(ns) == 1}
    bound: set[str] = set()
    for n in ast.walk(tree):
        if isinstance(n, ast.Name) and isinstance(n.ctx, (ast.Store, ast.Del)):
            bound.add(n.id)
        elif isinstance(n, ast.arg):
            bound.add(n.arg)
        elif isinstance(n, (ast.FunctionDef, ast.AsyncFunctionDef, ast.ClassDef)):
            bound.add(n.name)
        elif isinstance(n, ast.ExceptHandler) and n.name:
            bound.add(n.name)
    # several imports of one local name with different targets (function-level imports): leave the module alone
    seen: dict[str, set] = {}
    for n in ast.walk(tree):
        if isinstance(n, ast.ImportFrom):
            for a in n.names:
                seen.setdefault(a.asname or a.name, set()).add((n.module, a.name, n.level))
        elif isinstance(n, ast.Import):
            for a in n.names:
                seen.setdefault(a.asname or a.name.split(".")[0], set()).add((a.name if a.asname else a.name.split(".")[0],))
    ambiguous = {k for k, v in seen.items() if len(v) > 1}

    def free_for(r: str, tgt: str) -> bool:
        return r not in bound and r not in ambiguous and (r not in cur or cur[r] == tgt)

    # 1. a different alias of the same target
    renames: dict[str, str] = {}
    for name, tgt in cur.items():
        r = inv.get(tgt)
        if r and r != name and name not in bound and name not in ambiguous and free_for(r, tgt):
            renames[name] = r
    extra: dict[str, str] = {}  # reference-name -> target, for qualified uses rewritten to a bare name

    def chain(e: ast.AST):
        parts = []
        while isinstance(e, ast.Attribute):
            parts.append(e.attr)
            e = e.value
        if isinstance(e, ast.Name):
            return e.id, list(reversed(parts))
        return None, None

    class T(ast.NodeTransformer):
        def visit_Attribute(self, node):  # noqa: N802
            root, parts = chain(node)
            if root is not None and root in cur and root not in bound and root not in ambiguous and isinstance(node.ctx, ast.Load):
                full = ".".join([cur[root], *parts])
                if full in ref_qualified:
                    self.generic_visit(node)
                    return node  # the reference module spells it that way itself
                r = inv.get(full)
                if r is None and (cur[root] in ("numpy", "numpy.linalg") or cur[root].startswith("numpy.")) and len(parts) == 1 and not hasattr(builtins, parts[0]) and parts[0] not in ref and full.count(".") <= 2:
                    r = parts[0]
                if r is not None and free_for(r, full) and renames.get(r) is None:
                    extra[r] = full
                    return ast.copy_location(ast.Name(id=r, ctx=ast.Load()), node)
            self.generic_visit(node)
            return node

        def visit_Name(self, node):  # noqa: N802
            if node.id in renames:
                node.id = renames[node.id]
            return node

        def visit_alias(self, node):  # noqa: N802
            local = node.asname or node.name
            if local in renames:
                r = renames[local]
                node.asname = None if r == node.name else r
            return node

    T().visit(tree)
    for name, r in renames.items():
        done.append(f"import {name} -> {r}")
    pos = max((k for k, st in enumerate(tree.body) if isinstance(st, (ast.Import, ast.ImportFrom))), default=-1) + 1
    for r, full in sorted(extra.items()):
        if cur.get(r) == full or renames and r in renames.values():
            continue
        mod_, _, attr = full.rpartition(".")
        imp = ast.ImportFrom(module=mod_, names=[ast.alias(name=attr, asname=None if r == attr else r)], level=0)
        tree.body.insert(pos, ast.fix_missing_locations(ast.copy_location(imp, tree.body[pos - 1] if pos else tree.body[0])))
        done.append(f"qualified {full} -> {r}")
    return done


def _replace_node(root: ast.AST, old: ast.AST, new: ast.AST) -> None:
    for parent in ast.walk(root):
        for fld, val in ast.iter_fields(parent):
            if val is old:
                setattr(parent, fld, new)
                return
            if isinstance(val, list):
                for k, x in enumerate(val):
                    if x is old:
                        val[k] = new
                        return


def _hoistable_walruses(st: ast.stmt) -> list[ast.NamedExpr]:
    """The walrus of a simple statement that can be written as an assignment in front of it: it is always evaluated
    (not in a conditional position), nothing with a possible effect is evaluated before it, and its target is not read
    earlier in the statement. At most one per statement (the first)."""
    parents: dict[int, ast.AST] = {}
    for p_ in ast.walk(st):
        for ch in ast.iter_child_nodes(p_):
            parents[id(ch)] = p_
    ws = [n for n in ast.walk(st) if isinstance(n, ast.NamedExpr)]
    if len(ws) != 1:
        return []
    w = ws[0]
    # conditional positions
    ch = w
    anc: list[ast.AST] = []
    while id(ch) in parents:
        par = parents[id(ch)]
        if isinstance(par, ast.IfExp) and ch is not par.test:
            return []
        if isinstance(par, ast.BoolOp) and ch is not par.values[0]:
            return []
        if isinstance(par, ast.Compare) and ch is not par.left and (len(par.comparators) > 1 and ch is not par.comparators[0]):
            return []
        if isinstance(par, (ast.Lambda, ast.ListComp, ast.SetComp, ast.DictComp, ast.GeneratorExp, ast.comprehension)):
            return []
        anc.append(par)
        ch = par
    if isinstance(st, ast.Assign) and any(any(x is w for x in ast.walk(t)) for t in st.targets):
        return []
    if isinstance(st, ast.AugAssign):
        return []  # the target is read before the value is evaluated
    inside = {id(x) for x in ast.walk(w)}
    pos = (w.lineno, w.col_offset)
    for x in ast.walk(st):
        if id(x) in inside or x is st:
            continue
        if isinstance(x, (ast.Call, ast.Await, ast.Yield, ast.YieldFrom, ast.Subscript)) and not any(x is a_ for a_ in anc) and (getattr(x, "lineno", 0), getattr(x, "col_offset", 0)) < pos:
            return []  # evaluated before the walrus: the order of two effects would change
        if isinstance(x, ast.Name) and x.id == w.target.id and (x.lineno, x.col_offset) < pos:
            return []
    # a call among the ancestors evaluates its function expression first: it must not call anything
    for a_ in anc:
        if isinstance(a_, ast.Call) and any(isinstance(y, ast.Call) for y in ast.walk(a_.func)):
            return []
    return [w]


def canonicalise_idioms(tree: ast.AST) -> int:
    """Small behaviour-preserving rewrites to one spelling.

    * ``if (x := e) <test>:`` -> ``x = e`` followed by ``if x <test>:`` (statement-level walrus in an if test)
    * ``T[i] = T[i] op e`` -> ``T[i] op= e`` (item assignment writes in place either way)
    * ``e.transpose()`` -> ``e.T``;  ``len(x) >= 2`` -> ``len(x) > 1``;  ``len(x) == 0`` -> ``not x``;  ``len(x) > 0`` / ``!= 0`` / ``>= 1`` -> ``x`` (in tests)
    """
    n = 0

    class T(ast.NodeTransformer):
        def visit_Call(self, node):  # noqa: N802
            self.generic_visit(node)
            nonlocal n
            if isinstance(node.func, ast.Attribute) and node.func.attr == "transpose" and not node.args and not node.keywords:
                n += 1
                return ast.copy_location(ast.Attribute(value=node.func.value, attr="T", ctx=ast.Load()), node)
            # a.intersection(b) / a.union(b) / a.difference(b) -> a & b / a | b / a - b
            if isinstance(node.func, ast.Attribute) and node.func.attr in ("intersection", "union", "difference") and len(node.args) == 1 and not node.keywords and not isinstance(node.args[0], ast.Starred):
                n += 1
                op = {"intersection": ast.BitAnd(), "union": ast.BitOr(), "difference": ast.Sub()}[node.func.attr]
                return ast.copy_location(ast.BinOp(left=node.func.value, op=op, right=node.args[0]), node)
            # list(<generator>) / set(<generator>) / dict(<generator of pairs>) -> the comprehension
            if isinstance(node.func, ast.Name) and node.func.id in ("list", "set", "dict") and len(node.args) == 1 and not node.keywords and isinstance(node.args[0], ast.GeneratorExp):
                g_ = node.args[0]
                if node.func.id == "list":
                    n += 1
                    return ast.copy_location(ast.ListComp(elt=g_.elt, generators=g_.generators), node)
                if node.func.id == "set":
                    n += 1
                    return ast.copy_location(ast.SetComp(elt=g_.elt, generators=g_.generators), node)
                if isinstance(g_.elt, ast.Tuple) and len(g_.elt.elts) == 2 and not any(isinstance(x, ast.Starred) for x in g_.elt.elts):
                    n += 1
                    return ast.copy_location(ast.DictComp(key=g_.elt.elts[0], value=g_.elt.elts[1], generators=g_.generators), node)
            # super(Class, self) -> super();  type(self) -> self.__class__
            if isinstance(node.func, ast.Name) and node.func.id == "super" and len(node.args) == 2 and isinstance(node.args[1], ast.Name) and node.args[1].id == "self" and not node.keywords:
                n += 1
                node.args = []
                return node
            if isinstance(node.func, ast.Name) and node.func.id == "type" and len(node.args) == 1 and isinstance(node.args[0], ast.Name) and node.args[0].id == "self" and not node.keywords:
                n += 1
                return ast.copy_location(ast.Attribute(value=node.args[0], attr="__class__", ctx=ast.Load()), node)
            # dict() / list() / tuple() -> {} / [] / ()
            if isinstance(node.func, ast.Name) and node.func.id in ("dict", "list", "tuple") and not node.args and not node.keywords:
                n += 1
                lit = {"dict": ast.Dict(keys=[], values=[]), "list": ast.List(elts=[], ctx=ast.Load()), "tuple": ast.Tuple(elts=[], ctx=ast.Load())}[node.func.id]
                return ast.copy_location(lit, node)
            # sorted(m.keys()) / list(m.keys()) / len(m.keys()) ... -> sorted(m) ...: iterating a mapping gives its keys
            if isinstance(node.func, ast.Name) and node.func.id in ("sorted", "list", "tuple", "set", "frozenset", "len", "iter", "enumerate") and node.args and isinstance(node.args[0], ast.Call) and isinstance(node.args[0].func, ast.Attribute) and node.args[0].func.attr == "keys" and not node.args[0].args and not node.args[0].keywords:
                node.args[0] = node.args[0].func.value
                n += 1
            # numpy.real(e) / real(e) -> e.real (same for imag): one spelling of the view
            fname = node.func.id if isinstance(node.func, ast.Name) else (node.func.attr if isinstance(node.func, ast.Attribute) and isinstance(node.func.value, ast.Name) and node.func.value.id in ("numpy", "np") else None)
            if fname in ("real", "imag") and len(node.args) == 1 and not node.keywords and not isinstance(node.args[0], ast.Starred):
                n += 1
                return ast.copy_location(ast.Attribute(value=node.args[0], attr=fname, ctx=ast.Load()), node)
            # e.round() -> round(e): the method and the function of an array are the same operation
            if isinstance(node.func, ast.Attribute) and node.func.attr == "round" and not node.args and not node.keywords and not (isinstance(node.func.value, ast.Name) and node.func.value.id in ("numpy", "np", "math")):
                n += 1
                return ast.copy_location(ast.Call(func=ast.Name(id="round", ctx=ast.Load()), args=[node.func.value], keywords=[]), node)
            return node

        def visit_Compare(self, node):  # noqa: N802
            self.generic_visit(node)
            nonlocal n
            # `flag is True` / `flag == True` -> `flag` (boolean flags; the canonical tree is only analysed)
            if len(node.ops) == 1 and isinstance(node.ops[0], (ast.Is, ast.Eq)) and isinstance(node.comparators[0], ast.Constant) and node.comparators[0].value is True:
                n += 1
                return node.left
            if len(node.ops) == 1 and isinstance(node.left, ast.Call) and getattr(node.left.func, "id", None) == "len" and isinstance(node.comparators[0], ast.Constant) and isinstance(node.comparators[0].value, int):
                c = node.comparators[0].value
                op = type(node.ops[0])
                if op is ast.GtE and c >= 1:
                    node.ops = [ast.Gt()]
                    node.comparators = [ast.copy_location(ast.Constant(value=c - 1), node.comparators[0])]
                    n += 1
                elif op is ast.LtE and c >= 0:
                    node.ops = [ast.Lt()]
                    node.comparators = [ast.copy_location(ast.Constant(value=c + 1), node.comparators[0])]
                    n += 1
            return node

        def _loops(self, stmts):
            """`while x := e: B` and `x = e; while x: B; x = e` -> `while True: x = e; if not x: break; B`."""
            nonlocal n
            out = []
            for st in stmts:
                if isinstance(st, ast.While) and not st.orelse and isinstance(st.test, ast.NamedExpr):
                    w = st.test
                    assign = ast.copy_location(ast.Assign(targets=[ast.Name(id=w.target.id, ctx=ast.Store())], value=w.value), st)
                    guard = ast.copy_location(ast.If(test=ast.UnaryOp(op=ast.Not(), operand=ast.Name(id=w.target.id, ctx=ast.Load())), body=[ast.copy_location(ast.Break(), st)], orelse=[]), st)
                    st.test = ast.copy_location(ast.Constant(value=True), w)
                    st.body = [assign, guard, *st.body]
                    n += 1
                elif isinstance(st, ast.While) and not st.orelse and isinstance(st.test, ast.Name) and out and isinstance(out[-1], ast.Assign) and len(out[-1].targets) == 1 and isinstance(out[-1].targets[0], ast.Name) and out[-1].targets[0].id == st.test.id and st.body and isinstance(st.body[-1], ast.Assign) and ast.dump(st.body[-1]) == ast.dump(out[-1]) and not any(isinstance(x, ast.Continue) for x in ast.walk(st)):
                    prime = out.pop()
                    guard = ast.copy_location(ast.If(test=ast.UnaryOp(op=ast.Not(), operand=ast.Name(id=st.test.id, ctx=ast.Load())), body=[ast.copy_location(ast.Break(), st)], orelse=[]), st)
                    st.test = ast.copy_location(ast.Constant(value=True), st.test)
                    st.body = [prime, guard, *st.body[:-1]]
                    n += 1
                # `xs = []; for t in it: [if c:] xs.append(e)` -> `xs = [e for t in it [if c]]`
                # `d = {}; for t in it: [if c:] d[k] = v`        -> `d = {k: v for t in it [if c]}`
                if isinstance(st, ast.For) and not st.orelse and len(st.body) == 1 and out and isinstance(out[-1], ast.Assign) and len(out[-1].targets) == 1 and isinstance(out[-1].targets[0], ast.Name) and os.environ.get("GV_CANON_LOOPS", "1") == "1":
                    acc = out[-1].targets[0].id
                    init = out[-1].value
                    inner = st.body[0]
                    cond = None
                    if isinstance(inner, ast.If) and not inner.orelse and len(inner.body) == 1:
                        cond, inner = inner.test, inner.body[0]
                    new_value = None
                    used = lambda *es: any(isinstance(x, ast.Name) and x.id == acc for e_ in es if e_ is not None for x in ast.walk(e_))  # noqa: E731
                    if isinstance(init, ast.List) and not init.elts and isinstance(inner, ast.Expr) and isinstance(inner.value, ast.Call) and isinstance(inner.value.func, ast.Attribute) and inner.value.func.attr == "append" and isinstance(inner.value.func.value, ast.Name) and inner.value.func.value.id == acc and len(inner.value.args) == 1 and not inner.value.keywords and not used(inner.value.args[0], st.iter, cond):
                        new_value = ast.ListComp(elt=inner.value.args[0], generators=[ast.comprehension(target=st.target, iter=st.iter, ifs=[cond] if cond is not None else [], is_async=0)])
                    elif isinstance(init, ast.Dict) and not init.keys and isinstance(inner, ast.Assign) and len(inner.targets) == 1 and isinstance(inner.targets[0], ast.Subscript) and isinstance(inner.targets[0].value, ast.Name) and inner.targets[0].value.id == acc and not used(inner.targets[0].slice, inner.value, st.iter, cond):
                        new_value = ast.DictComp(key=inner.targets[0].slice, value=inner.value, generators=[ast.comprehension(target=st.target, iter=st.iter, ifs=[cond] if cond is not None else [], is_async=0)])
                    if new_value is not None and not any(isinstance(x, (ast.Break, ast.Continue, ast.Yield, ast.YieldFrom, ast.Await, ast.NamedExpr)) for x in ast.walk(st)):
                        out[-1].value = ast.copy_location(new_value, st)
                        ast.fix_missing_locations(out[-1])
                        n += 1
                        continue
                # `x.reverse(); return x` -> `return list(reversed(x))`
                if isinstance(st, ast.Return) and isinstance(st.value, ast.Name) and out and isinstance(out[-1], ast.Expr) and isinstance(out[-1].value, ast.Call) and isinstance(out[-1].value.func, ast.Attribute) and out[-1].value.func.attr == "reverse" and not out[-1].value.args and dotted_name(out[-1].value.func.value) == st.value.id:
                    out.pop()
                    st.value = ast.copy_location(ast.Call(func=ast.Name(id="list", ctx=ast.Load()), args=[ast.Call(func=ast.Name(id="reversed", ctx=ast.Load()), args=[st.value], keywords=[])], keywords=[]), st.value)
                    n += 1
                out.append(st)
            return out

        depth = 0

        def visit_FunctionDef(self, node):  # noqa: N802
            self.depth += 1
            try:
                return self.generic_visit(node)
            finally:
                self.depth -= 1

        visit_AsyncFunctionDef = visit_FunctionDef

        def visit_While(self, node):  # noqa: N802
            nonlocal n
            if isinstance(node.test, ast.Constant) and not isinstance(node.test.value, bool) and node.test.value:
                node.test = ast.copy_location(ast.Constant(value=True), node.test)  # while 1:
                n += 1
            return self.generic_visit(node)

        def _in_function(self, stmts):
            """Statement idioms that only make sense for the locals of a function (not class / module level)."""
            nonlocal n
            out = []
            for st in stmts:
                # x: T = v -> x = v
                if isinstance(st, ast.AnnAssign) and st.value is not None and isinstance(st.target, (ast.Name, ast.Attribute)):
                    st = ast.copy_location(ast.Assign(targets=[st.target], value=st.value), st)
                    n += 1
                # a, b = x, y -> a = x; b = y  (when no later right-hand side reads an earlier target)
                if isinstance(st, ast.Assign) and len(st.targets) == 1 and isinstance(st.targets[0], ast.Tuple) and isinstance(st.value, ast.Tuple) and len(st.targets[0].elts) == len(st.value.elts) and not any(isinstance(e, ast.Starred) for e in (*st.targets[0].elts, *st.value.elts)):
                    tg, vs = st.targets[0].elts, st.value.elts
                    written = [({x.id for x in ast.walk(t) if isinstance(x, ast.Name) and isinstance(x.ctx, ast.Store)}, ast.unparse(t) if not isinstance(t, ast.Name) else None) for t in tg]
                    safe = True
                    for j in range(1, len(vs)):
                        vtxt = ast.unparse(vs[j])
                        vnames = {x.id for x in ast.walk(vs[j]) if isinstance(x, ast.Name)}
                        for i in range(j):
                            if written[i][0] & vnames or (written[i][1] is not None and written[i][1] in vtxt):
                                safe = False
                    if safe and all(isinstance(t, (ast.Name, ast.Attribute, ast.Subscript)) for t in tg):
                        for t, v in zip(tg, vs):
                            out.append(ast.copy_location(ast.Assign(targets=[t], value=v), st))
                        n += 1
                        continue
                # if (x := e) and c: -> x = e; if x and c:   (the first operand is always evaluated)
                if isinstance(st, ast.If) and isinstance(st.test, ast.BoolOp) and isinstance(st.test.values[0], ast.NamedExpr):
                    w = st.test.values[0]
                    out.append(ast.copy_location(ast.Assign(targets=[ast.Name(id=w.target.id, ctx=ast.Store())], value=w.value), st))
                    st.test.values[0] = ast.copy_location(ast.Name(id=w.target.id, ctx=ast.Load()), w)
                    n += 1
                # f((y := e), ..) / x = g((y := e)) -> y = e; f(y, ..)   (a walrus a simple statement always evaluates, first)
                if isinstance(st, (ast.Expr, ast.Assign, ast.Return, ast.AugAssign)):
                    for w in _hoistable_walruses(st):
                        out.append(ast.copy_location(ast.Assign(targets=[ast.Name(id=w.target.id, ctx=ast.Store())], value=w.value), st))
                        _replace_node(st, w, ast.copy_location(ast.Name(id=w.target.id, ctx=ast.Load()), w))
                        n += 1
                # `c or f()` / `c and f()` as a statement -> if not c: f() / if c: f()
                if isinstance(st, ast.Expr) and isinstance(st.value, ast.BoolOp) and len(st.value.values) == 2 and isinstance(st.value.values[1], ast.Call):
                    c_, act = st.value.values
                    test = c_ if isinstance(st.value.op, ast.And) else ast.copy_location(ast.UnaryOp(op=ast.Not(), operand=c_), c_)
                    st = ast.copy_location(ast.If(test=test, body=[ast.copy_location(ast.Expr(value=act), st)], orelse=[]), st)
                    n += 1
                # xs += [e] -> xs.append(e)
                if isinstance(st, ast.AugAssign) and isinstance(st.op, ast.Add) and isinstance(st.value, ast.List) and len(st.value.elts) == 1 and not isinstance(st.value.elts[0], ast.Starred) and isinstance(st.target, (ast.Name, ast.Attribute)):
                    import copy as _copy

                    recv = _copy.deepcopy(st.target)
                    recv.ctx = ast.Load()
                    st = ast.copy_location(ast.Expr(value=ast.Call(func=ast.Attribute(value=recv, attr="append", ctx=ast.Load()), args=[st.value.elts[0]], keywords=[])), st)
                    n += 1
                # def f(x): return e  (nested, undecorated) -> f = lambda x: e
                if isinstance(st, ast.FunctionDef) and not st.decorator_list and not st.args.kwonlyargs:
                    body_ = [b for b in st.body if not (isinstance(b, ast.Expr) and isinstance(b.value, ast.Constant))]
                    if len(body_) == 1 and isinstance(body_[0], ast.Return) and body_[0].value is not None:
                        import copy as _copy

                        a2 = _copy.deepcopy(st.args)
                        for a_ in [*a2.posonlyargs, *a2.args, *( [a2.vararg] if a2.vararg else []), *([a2.kwarg] if a2.kwarg else [])]:
                            a_.annotation = None
                        st = ast.copy_location(ast.Assign(targets=[ast.Name(id=st.name, ctx=ast.Store())], value=ast.Lambda(args=a2, body=body_[0].value)), st)
                        n += 1
                out.append(st)
            return out

        def _body(self, stmts):
            nonlocal n
            out = []
            if self.depth > 0:
                stmts = self._in_function(stmts)
            stmts = self._loops(stmts)
            for st in stmts:
                if isinstance(st, ast.If):
                    t = st.test
                    host = t.operand if isinstance(t, ast.UnaryOp) and isinstance(t.op, ast.Not) else t
                    w = None
                    if isinstance(host, ast.NamedExpr):
                        w = host
                    elif isinstance(host, ast.Compare) and isinstance(host.left, ast.NamedExpr):
                        w = host.left
                    if w is not None:
                        out.append(ast.copy_location(ast.Assign(targets=[ast.Name(id=w.target.id, ctx=ast.Store())], value=w.value), st))
                        repl = ast.copy_location(ast.Name(id=w.target.id, ctx=ast.Load()), w)
                        if host is w:
                            if host is t:
                                st.test = repl
                            else:
                                t.operand = repl
                        else:
                            host.left = repl
                        n += 1
                if isinstance(st, ast.Assign) and len(st.targets) == 1 and isinstance(st.targets[0], ast.Subscript) and isinstance(st.value, ast.BinOp) and isinstance(st.value.op, (ast.Add, ast.Sub, ast.Mult, ast.Div)):
                    tt = ast.unparse(st.targets[0])
                    if ast.unparse(st.value.left) == tt:
                        st = ast.copy_location(ast.AugAssign(target=st.targets[0], op=st.value.op, value=st.value.right), st)
                        n += 1
                    elif isinstance(st.value.op, (ast.Add, ast.Mult)) and ast.unparse(st.value.right) == tt:
                        st = ast.copy_location(ast.AugAssign(target=st.targets[0], op=st.value.op, value=st.value.left), st)
                        n += 1
                out.append(st)
            return out

        def generic_visit(self, node):
            super().generic_visit(node)
            for fld in ("body", "orelse", "finalbody"):
                b = getattr(node, fld, None)
                if isinstance(b, list) and b and isinstance(b[0], ast.stmt):
                    setattr(node, fld, self._body(b))
            return node

    T().visit(tree)
    # len(x) == 0 / > 0 / != 0 in tests
    for node in ast.walk(tree):
        tests = []
        if isinstance(node, (ast.If, ast.While, ast.IfExp)):
            tests.append(("test", node))
        for attr, host in tests:
            t = getattr(host, attr)
            neg = False
            inner = t
            if isinstance(inner, ast.UnaryOp) and isinstance(inner.op, ast.Not):
                inner, neg = inner.operand, True
            if isinstance(inner, ast.Compare) and len(inner.ops) == 1 and isinstance(inner.left, ast.Call) and getattr(inner.left.func, "id", None) == "len" and len(inner.left.args) == 1 and isinstance(inner.comparators[0], ast.Constant) and inner.comparators[0].value == 0:
                op = type(inner.ops[0])
                x = inner.left.args[0]
                if op in (ast.Eq,):
                    new = x if neg else ast.UnaryOp(op=ast.Not(), operand=x)
                elif op in (ast.Gt, ast.NotEq):
                    new = ast.UnaryOp(op=ast.Not(), operand=x) if neg else x
                else:
                    continue
                setattr(host, attr, ast.copy_location(new, t))
                n += 1
    ast.fix_missing_locations(tree)
    return n


# --------------------------------------------------------------------------------------------------------------
# Helpers extracted from a reference function ("extract method"): inlined back at their call sites
#
# A method / module-level function that the reference tree does not have, defined next to a function that calls it, is
# substituted for its calls (parameters bound to the arguments, its locals renamed apart) when that is a plain textual
# unfolding: the call is a whole statement, the whole right-hand side of an assignment or the whole returned value, and
# the helper returns only at its end (bare early returns under a top-level `if` become if/else); a helper that is a
# single `return <expr>` is substituted anywhere.  A helper that is no longer referenced afterwards is dropped.
# Nothing happens on the reference tree (no new name), and the result is only analysed, never run.


def _helper_body(h: ast.AST):
    """(statements without docstring, final return expression or None, ok)"""
    body = [b for b in h.body if not (isinstance(b, ast.Expr) and isinstance(b.value, ast.Constant) and isinstance(b.value.value, str))]
    for n in _own_nodes(h):
        if isinstance(n, (ast.Yield, ast.YieldFrom, ast.Await, ast.Global, ast.Nonlocal)):
            return None, None, False
    if any(isinstance(n, (*FUNC_TYPES, ast.ClassDef)) for b in body for n in ast.walk(b)):
        return None, None, False
    if isinstance(h, ast.AsyncFunctionDef):
        return None, None, False
    return body, None, True


def _split_returns(stmts: list[ast.stmt]):
    """Rewrite `if c: A; return` followed by R into `if c: A else: R` (bare returns only).  Returns (stmts, final value
    expression or None, ok): ok is False when a return remains elsewhere than at the very end."""
    import copy

    stmts = [copy.deepcopy(s) for s in stmts]

    def rewrite(block):
        out = []
        for k, s in enumerate(block):
            if isinstance(s, ast.If) and not s.orelse and s.body and isinstance(s.body[-1], ast.Return) and s.body[-1].value is None and not any(isinstance(n, ast.Return) for b in s.body[:-1] for n in ast.walk(b)):
                rest = rewrite(block[k + 1 :])
                s.body = s.body[:-1] or [ast.copy_location(ast.Pass(), s)]
                s.orelse = rest
                out.append(s)
                return out
            out.append(s)
        return out

    stmts = rewrite(stmts)
    final = None
    if stmts and isinstance(stmts[-1], ast.Return):
        final = stmts[-1].value
        stmts = stmts[:-1]
        if final is None:
            final = False  # bare return at the end: no value
    if any(isinstance(n, ast.Return) for s in stmts for n in ast.walk(s)):
        return None, None, False
    return stmts, final, True


_INLINE_COUNTER = [0]


def _bind_call(h: ast.AST, call: ast.Call, is_method: bool):
    """param -> argument expression, or None."""
    a = h.args
    if a.vararg or a.kwarg or a.posonlyargs or any(isinstance(x, ast.Starred) for x in call.args) or any(k.arg is None for k in call.keywords):
        return None
    params = [p.arg for p in a.args]
    static = any(getattr(d, "id", getattr(d, "attr", None)) == "staticmethod" for d in h.decorator_list)
    if any(getattr(d, "id", getattr(d, "attr", None)) not in ("staticmethod",) for d in h.decorator_list):
        return None
    bind = {}
    if is_method and not static:
        if not params:
            return None
        bind[params[0]] = ast.Name(id="self", ctx=ast.Load())
        params = params[1:]
    if len(call.args) > len(params):
        return None
    for p, v in zip(params, call.args):
        bind[p] = v
    kwonly = [p.arg for p in a.kwonlyargs]
    for k in call.keywords:
        if k.arg not in params and k.arg not in kwonly or k.arg in bind:
            return None
        bind[k.arg] = k.value
    defaults = dict(zip(params[len(params) - len(a.defaults) :], a.defaults))
    defaults.update({p: d for p, d in zip(kwonly, a.kw_defaults) if d is not None})
    for p in [*params, *kwonly]:
        if p not in bind:
            if p not in defaults:
                return None
            bind[p] = defaults[p]
    return bind


def _instantiate(h: ast.AST, call: ast.Call, is_method: bool, caller_names: set[str], keep_returns: bool = False):
    """(prelude assignments, body statements, value expression | None | False) of the helper applied to the call.

    ``keep_returns``: the call is the whole value of a ``return``: the helper's body, returns included, takes its place.
    """
    import copy

    body, _, ok = _helper_body(h)
    if not ok:
        return None
    if keep_returns:
        stmts, final = [copy.deepcopy(b) for b in body], False
        # falling off the end of the helper returns None
        if not (stmts and isinstance(stmts[-1], (ast.Return, ast.Raise))):
            stmts.append(ast.Return(value=ast.Constant(value=None)))
    else:
        stmts, final, ok = _split_returns(body)
        if not ok:
            return None
    bind = _bind_call(h, call, is_method)
    if bind is None:
        return None
    _INLINE_COUNTER[0] += 1
    tag = f"_{h.name.strip('_')}{_INLINE_COUNTER[0]}_"
    stored = set()
    for s in stmts:
        for n in ast.walk(s):
            if isinstance(n, ast.Name) and isinstance(n.ctx, (ast.Store, ast.Del)):
                stored.add(n.id)
            elif isinstance(n, ast.ExceptHandler) and n.name:
                stored.add(n.name)
    prelude = []
    subst: dict[str, ast.AST] = {}
    for p, v in bind.items():
        simple = isinstance(v, (ast.Name, ast.Constant)) or (isinstance(v, ast.Attribute) and _is_pure(v))
        if simple and p not in stored:
            subst[p] = v
        else:
            new = tag + p
            prelude.append(ast.Assign(targets=[ast.Name(id=new, ctx=ast.Store())], value=copy.deepcopy(v)))
            subst[p] = ast.Name(id=new, ctx=ast.Load())
            if p in stored:
                stored.discard(p)
                subst[p] = ast.Name(id=new, ctx=ast.Load())
    rename = {n: (tag + n if n in caller_names else n) for n in stored}

    class R(ast.NodeTransformer):
        def visit_Name(self, n):  # noqa: N802
            if n.id in subst:
                if isinstance(n.ctx, ast.Load):
                    return copy.deepcopy(subst[n.id])
                tgt = subst[n.id]
                return ast.Name(id=tgt.id, ctx=n.ctx) if isinstance(tgt, ast.Name) else n
            if n.id in rename:
                return ast.Name(id=rename[n.id], ctx=n.ctx)
            return n

        def visit_ExceptHandler(self, n):  # noqa: N802
            if n.name in rename:
                n.name = rename[n.name]
            return self.generic_visit(n)

    out = [R().visit(s) for s in stmts]
    val = R().visit(copy.deepcopy(final)) if final not in (None, False) else final
    return prelude, out, val


def _helper_call(node: ast.AST, helpers: dict, is_method: bool):
    if not isinstance(node, ast.Call):
        return None
    f = node.func
    if is_method and isinstance(f, ast.Attribute) and isinstance(f.value, ast.Name) and f.value.id == "self" and f.attr in helpers:
        return helpers[f.attr]
    if not is_method and isinstance(f, ast.Name) and f.id in helpers:
        return helpers[f.id]
    return None


def _inline_in(caller: ast.AST, helpers: dict, is_method: bool) -> int:
    n_done = 0
    for _ in range(8):
        progressed = False
        all_names = {n.id for n in ast.walk(caller) if isinstance(n, ast.Name)} | {a.arg for a in caller.args.args}
        loop_spans = [(n.lineno, getattr(n, "end_lineno", n.lineno)) for n in ast.walk(caller) if isinstance(n, (ast.For, ast.While, ast.AsyncFor)) and hasattr(n, "lineno")]
        for block in _blocks(caller):
            for k, st in enumerate(block):
                # the helper's locals are renamed apart only from the caller's names that are still read afterwards
                # (a name of the caller that is dead at the call may be reused, as the un-extracted code would)
                line = getattr(st, "end_lineno", getattr(st, "lineno", 0)) or 0
                if any(a <= getattr(st, "lineno", 0) <= b for a, b in loop_spans):
                    caller_names = all_names
                else:
                    caller_names = {n.id for n in ast.walk(caller) if isinstance(n, ast.Name) and isinstance(n.ctx, ast.Load) and getattr(n, "lineno", 0) > line}
                call = None
                kind = None
                if isinstance(st, ast.Expr) and _helper_call(st.value, helpers, is_method):
                    call, kind = st.value, "expr"
                elif isinstance(st, (ast.Assign, ast.AnnAssign, ast.AugAssign)) and st.value is not None and _helper_call(st.value, helpers, is_method):
                    call, kind = st.value, "value"
                elif isinstance(st, ast.Return) and st.value is not None and _helper_call(st.value, helpers, is_method):
                    call, kind = st.value, "value"
                elif isinstance(st, ast.If) and _helper_call(st.test, helpers, is_method):
                    call, kind = st.test, "test"
                elif isinstance(st, ast.If) and isinstance(st.test, ast.UnaryOp) and isinstance(st.test.op, ast.Not) and _helper_call(st.test.operand, helpers, is_method):
                    call, kind = st.test.operand, "nottest"
                if call is None:
                    # a helper that is a single `return <expr>`: substituted anywhere in a simple statement
                    if isinstance(st, (ast.Assign, ast.AnnAssign, ast.AugAssign, ast.Expr, ast.Return, ast.If, ast.While, ast.Assert, ast.Raise)):
                        hosts = [st.test] if isinstance(st, (ast.If, ast.While)) else [st]
                        for host in hosts:
                            for sub in ast.walk(host):
                                h = _helper_call(sub, helpers, is_method)
                                if h is None or h is caller:
                                    continue
                                inst = _instantiate(h, sub, is_method, caller_names)
                                if inst is None or inst[0] or inst[1] or inst[2] in (None, False):
                                    continue
                                val = inst[2]

                                class S(ast.NodeTransformer):
                                    def visit_Call(self, n, _t=sub, _v=val):  # noqa: N802
                                        if n is _t:
                                            return _v
                                        return self.generic_visit(n)

                                if isinstance(st, (ast.If, ast.While)):
                                    st.test = S().visit(st.test)
                                else:
                                    block[k] = S().visit(st)
                                progressed = True
                                n_done += 1
                                break
                            if progressed:
                                break
                    if progressed:
                        break
                    continue
                h = _helper_call(call, helpers, is_method)
                if h is caller:
                    continue
                if kind == "value" and isinstance(st, ast.Assign) and len(st.targets) == 1 and isinstance(st.targets[0], ast.Name) and not any(isinstance(n, ast.Name) and n.id == st.targets[0].id for n in ast.walk(call)):
                    # `T = self.helper(..)`: the old value of T is dead once the call's arguments are evaluated, so a
                    # local of the helper may be called T (as the un-extracted code would call it)
                    caller_names = caller_names - {st.targets[0].id}
                inst = _instantiate(h, call, is_method, caller_names)
                if inst is None and isinstance(st, ast.Return):
                    inst = _instantiate(h, call, is_method, caller_names, keep_returns=True)
                    if inst is not None:
                        new = [*inst[0], *inst[1]]
                        for s_ in new:
                            for n_ in ast.walk(s_):
                                if not hasattr(n_, "lineno"):
                                    ast.copy_location(n_, st)
                        block[k : k + 1] = new
                        progressed = True
                        n_done += 1
                        break
                if inst is None:
                    continue
                prelude, body, val = inst
                if kind != "expr" and val in (None, False):
                    continue
                new = [*prelude, *body]
                if kind == "expr":
                    if val not in (None, False) and not _is_pure(val):
                        new.append(ast.Expr(value=val))
                elif kind == "value":
                    st.value = val
                    single = isinstance(st, ast.Assign) and len(st.targets) == 1 and isinstance(st.targets[0], ast.Name)
                    if single and isinstance(val, ast.Name) and val.id != st.targets[0].id:
                        # `L = ..; ..; T = L` with L a local of the helper: call it T from the start
                        t_id, l_id = st.targets[0].id, val.id
                        names_new = [n for s_ in new for n in ast.walk(s_) if isinstance(n, ast.Name)]
                        l_stored = any(n.id == l_id and isinstance(n.ctx, ast.Store) for n in names_new)
                        l_elsewhere = any(isinstance(n, ast.Name) and n.id == l_id for b_ in _blocks(caller) for s_ in b_ if s_ is not st for n in ast.walk(s_) if not any(n is m for m in names_new))
                        if l_stored and not l_elsewhere and not any(n.id == t_id for n in names_new) and t_id not in {a.arg for a in caller.args.args}:
                            for n in names_new:
                                if n.id == l_id:
                                    n.id = t_id
                            val = ast.Name(id=t_id, ctx=ast.Load())
                    if not (single and isinstance(val, ast.Name) and val.id == st.targets[0].id):
                        new.append(st)  # (`T = T` is dropped)
                elif kind == "test":
                    st.test = val
                    new.append(st)
                else:
                    st.test.operand = val
                    new.append(st)
                for s_ in new:
                    ast.copy_location(s_, st)
                    for n_ in ast.walk(s_):
                        if not hasattr(n_, "lineno"):
                            ast.copy_location(n_, st)
                block[k : k + 1] = new or [ast.copy_location(ast.Pass(), st)]
                progressed = True
                n_done += 1
                break
            if progressed:
                break
        if not progressed:
            break
    if n_done:
        ast.fix_missing_locations(caller)
    return n_done


def inline_new_helpers(tree: ast.Module, rel: str, ref: dict) -> list[str]:
    """Inline the helpers the reference tree does not know (see above).  Returns what was done."""
    done = []

    def scope(node, prefix, is_class):
        defs = {ch.name: ch for ch in node.body if isinstance(ch, FUNC_TYPES)}
        counts = {}
        for ch in node.body:
            if isinstance(ch, FUNC_TYPES):
                counts[ch.name] = counts.get(ch.name, 0) + 1
        new = {n: d for n, d in defs.items() if f"{rel}::{prefix}{n}" not in ref and counts[n] == 1 and not (n.startswith("__") and n.endswith("__"))}
        if new:
            for name, d in defs.items():
                helpers = {n: h for n, h in new.items() if n != name}
                if is_class:
                    helpers_m = dict(helpers)
                    helpers_m.update({f"_{node.name.lstrip('_')}{n}": h for n, h in helpers.items() if n.startswith("__")})
                    k = _inline_in(d, helpers_m, True)
                else:
                    k = _inline_in(d, helpers, False)
                if k:
                    done.append(f"{rel}::{prefix}{name}: {k} call(s) of new helper(s) inlined")
            # drop the helpers that nothing references any more (they were only called from the functions above)
            if any(d_.startswith(f"{rel}::{prefix}") for d_ in done):
                for n, h in new.items():
                    mangled = f"_{node.name.lstrip('_')}{n}" if is_class and n.startswith("__") else n
                    others = [x for x in ast.walk(tree) if not any(x is y for y in ast.walk(h)) and ((isinstance(x, ast.Attribute) and x.attr in (n, mangled)) or (isinstance(x, ast.Name) and x.id == n) or (isinstance(x, ast.Constant) and x.value in (n, mangled)))]
                    if not others and h in node.body:
                        node.body.remove(h)
                        done.append(f"{rel}::{prefix}{n}: helper dropped (no reference left)")
        for ch in node.body:
            if isinstance(ch, ast.ClassDef):
                scope(ch, f"{prefix}{ch.name}.", True)

    scope(tree, "", False)
    return done
