"""K6 (parameter purity): no in-place write through a name that may still alias an array parameter.

Flow-sensitive may-alias analysis on the CFG: a name carries the set of parameters whose storage it
may share.  Views keep the alias (``p[1:]``, ``p.T``, ``atleast_2d(p)``, ``p.reshape(...)``, ``asarray(p)``);
fancy indexing, ``.copy()``, ``array(p)`` and arithmetic produce fresh arrays.
"""

from __future__ import annotations

import ast

from gv.astutil import dotted
from gv.astutil import kwarg
from gv.astutil import last_attr
from gv.astutil import unparse
from gv.cfg import cfg_of
from gv.dataflow import Forward

FRESH = frozenset()
VIEW_FUNCS = {"atleast_1d", "atleast_2d", "atleast_3d", "asarray", "asanyarray", "ravel", "reshape", "squeeze", "transpose", "swapaxes", "real", "imag", "ascontiguousarray", "broadcast_to", "expand_dims", "diagonal", "view"}
VIEW_METHODS = {"reshape", "ravel", "squeeze", "transpose", "swapaxes", "view", "diagonal", "astype_nocopy"}
VIEW_ATTRS = {"T", "real", "imag", "flat", "data"}
INPLACE_METHODS = {"sort", "fill", "resize", "put", "itemset", "partition", "setfield", "byteswap_inplace", "setdiag", "clip_inplace", "update", "clear", "pop", "append", "extend", "insert", "remove"}

ARRAY_ANNOTATIONS = ("ndarray", "Array", "array", "NDArray", "OutputType", "sparse", "matrix")
SEQ_ANNOTATIONS = ("Sequence", "ndarray", "list", "Iterable", "Array", "IntegerArray", "tuple")


def _is_array_param(arg: ast.arg) -> bool:
    a = unparse(arg.annotation) if arg.annotation is not None else ""
    return any(k in a for k in ARRAY_ANNOTATIONS)


def _is_sequence_name(func: ast.FunctionDef, name: str) -> bool:
    for a in [*func.args.args, *func.args.kwonlyargs]:
        if a.arg == name:
            t = unparse(a.annotation) if a.annotation is not None else ""
            return any(k in t for k in SEQ_ANNOTATIONS)
    return False


MAYBE_SELF_METHODS = {"tocsr", "tocsc", "tocoo", "asformat", "tolil", "todia", "tobsr", "asfptype"}
OPERAND_RESULT_METHODS = {"jac", "evaluate", "func", "_jac", "_func"}


def impure_writes(func: ast.FunctionDef, params: set[str] | None = None, *, track_state: bool = False) -> tuple[list[tuple[ast.AST, str, str]], int]:
    """(node, parameter, what) for every in-place write that may reach a parameter's storage; number of in-place sites examined.

    With ``track_state`` the storage of ``self.<attr>`` and of the arrays returned by an operand's
    ``evaluate/func/jac`` (which may be arrays the operand keeps, e.g. the coefficients of a linear
    function) are alias sources as well; sparse ``to<format>()`` conversions may return their receiver.
    """
    if params is None:
        params = {a.arg for a in [*func.args.posonlyargs, *func.args.args, *func.args.kwonlyargs] if a.arg not in ("self", "cls") and _is_array_param(a)}
    if not params and not track_state:
        return [], 0
    cfg = cfg_of(func)

    def ev(e: ast.AST, env) -> frozenset:
        if isinstance(e, ast.Name):
            return env.get(e.id, FRESH)
        if isinstance(e, ast.Attribute):
            if e.attr in VIEW_ATTRS:
                return ev(e.value, env)
            if track_state and isinstance(e.value, ast.Name) and e.value.id == "self":
                return frozenset({f"self.{e.attr}"})
            return FRESH
        if isinstance(e, ast.Subscript):
            base = ev(e.value, env)
            if not base:
                return FRESH
            items = e.slice.elts if isinstance(e.slice, ast.Tuple) else [e.slice]
            for it in items:
                if isinstance(it, (ast.Slice,)) or (isinstance(it, ast.Constant) and (it.value is None or it.value is Ellipsis or isinstance(it.value, int))):
                    continue
                if isinstance(it, ast.Name) and it.id == "newaxis":
                    continue
                if isinstance(it, ast.Name) and _is_sequence_name(func, it.id):
                    return FRESH  # fancy indexing copies
                if isinstance(it, (ast.List, ast.Compare, ast.Call)):
                    return FRESH
                # an unknown index (scalar -> view of a row): keep the alias
            return base
        if isinstance(e, ast.Call):
            name = last_attr(e)
            if isinstance(e.func, ast.Attribute) and name in VIEW_METHODS:
                return ev(e.func.value, env)
            if track_state and isinstance(e.func, ast.Attribute) and name in MAYBE_SELF_METHODS:
                return ev(e.func.value, env)
            if track_state and isinstance(e.func, ast.Attribute) and name in OPERAND_RESULT_METHODS and not (isinstance(e.func.value, ast.Name) and e.func.value.id in ("self", "super")):
                return frozenset({f"result of {unparse(e.func)}"})
            if isinstance(e.func, ast.Attribute) and name == "astype":
                cp = kwarg(e, "copy")
                if isinstance(cp, ast.Constant) and cp.value is False:
                    return ev(e.func.value, env)
                return FRESH
            if name in VIEW_FUNCS and e.args and not isinstance(e.func, ast.Attribute):
                return ev(e.args[0], env)
            if name in VIEW_FUNCS and e.args and isinstance(e.func, ast.Attribute) and dotted(e.func.value) in ("np", "numpy"):
                return ev(e.args[0], env)
            if name == "array" and e.args:
                cp = kwarg(e, "copy")
                if isinstance(cp, ast.Constant) and cp.value is False:
                    return ev(e.args[0], env)
                return FRESH
            return FRESH
        if isinstance(e, ast.IfExp):
            if isinstance(e.test, ast.Constant):
                return ev(e.body if e.test.value else e.orelse, env)
            return ev(e.body, env) | ev(e.orelse, env)
        if isinstance(e, ast.NamedExpr):
            return ev(e.value, env)
        if isinstance(e, ast.Starred):
            return ev(e.value, env)
        return FRESH

    def aug(node: ast.AugAssign, env) -> frozenset:
        # ``x op= y`` on an array keeps the identity of x
        return ev(node.target, env)

    init = {p: frozenset({p}) for p in params}
    fw = Forward(cfg, ev, init=init, aug=aug)
    out: list[tuple[ast.AST, str, str]] = []
    sites = 0
    for n in cfg.stmt_nodes():
        node = cfg.ast[n]
        env = fw.env_in.get(n, {})
        if cfg.kind[n] != "stmt" or node is None:
            continue
        if isinstance(node, ast.AugAssign):
            sites += 1
            tgt = node.target
            base = tgt
            while isinstance(base, (ast.Subscript, ast.Attribute)) and not isinstance(base, ast.Name):
                if isinstance(base, ast.Attribute) and base.attr not in VIEW_ATTRS:
                    base = None
                    break
                base = base.value
            if base is not None:
                al = ev(tgt if isinstance(tgt, ast.Name) else base, env)
                for p in sorted(al):
                    out.append((node, p, f"in-place `{unparse(node.op).strip() or type(node.op).__name__}=` on a value that may share the storage of parameter `{p}`"))
        elif isinstance(node, ast.Assign):
            for t in node.targets:
                if isinstance(t, ast.Subscript):
                    sites += 1
                    base = t.value
                    while isinstance(base, ast.Subscript) or (isinstance(base, ast.Attribute) and base.attr in VIEW_ATTRS):
                        base = base.value
                    if isinstance(base, ast.Name):
                        for p in sorted(env.get(base.id, FRESH)):
                            out.append((node, p, f"item assignment into a value that may share the storage of parameter `{p}`"))
        for c in ast.walk(node):
            if isinstance(c, ast.Call):
                if isinstance(c.func, ast.Attribute) and c.func.attr in ("sort", "fill", "resize", "itemset", "setdiag", "partition") and isinstance(c.func.value, ast.Name):
                    sites += 1
                    for p in sorted(env.get(c.func.value.id, FRESH)):
                        out.append((node, p, f"`.{c.func.attr}()` modifies a value that may share the storage of parameter `{p}`"))
                o = kwarg(c, "out")
                if o is not None:
                    sites += 1
                    for p in sorted(ev(o, env)):
                        out.append((node, p, f"`out=` writes into a value that may share the storage of parameter `{p}`"))
    # dedupe
    seen, res = set(), []
    for node, p, what in out:
        k = (id(node), p)
        if k not in seen:
            seen.add(k)
            res.append((node, p, what))
    return res, sites
