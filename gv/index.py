"""E1 -- source index: modules, imports, classes, MRO, methods."""

from __future__ import annotations

import ast
import hashlib
import json
import os
from dataclasses import dataclass
from dataclasses import field
from pathlib import Path

from gv.astutil import FUNC_TYPES
from gv.astutil import AnalysisError
from gv.astutil import decorator_names
from gv.astutil import dotted
from gv.astutil import mangle


def repo_root() -> Path:
    return Path(os.environ.get("GV_REPO", "/repo"))


@dataclass
class ClassInfo:
    name: str
    qualname: str  # Outer.Inner for nested classes
    module: "ModuleInfo"
    node: ast.ClassDef
    base_exprs: list[str]
    methods: dict[str, ast.FunctionDef] = field(default_factory=dict)
    setters: dict[str, ast.FunctionDef] = field(default_factory=dict)
    properties: set[str] = field(default_factory=set)
    class_attrs: dict[str, ast.AST] = field(default_factory=dict)  # name -> value/annotation stmt
    nested: dict[str, "ClassInfo"] = field(default_factory=dict)
    bases: list["ClassInfo"] = field(default_factory=list)

    @property
    def key(self) -> str:
        return f"{self.module.relpath}::{self.qualname}"

    def mangle(self, attr: str) -> str:
        return mangle(self.name, attr)

    def __hash__(self) -> int:
        return hash(self.key)

    def __eq__(self, other) -> bool:
        return isinstance(other, ClassInfo) and other.key == self.key

    def __repr__(self) -> str:
        return f"<class {self.key}>"


@dataclass
class ModuleInfo:
    relpath: str  # relative to src/gemseo, e.g. algos/design_space.py
    modname: str  # gemseo.algos.design_space
    tree: ast.Module
    source: str
    imports: dict[str, str] = field(default_factory=dict)  # local name -> qualified
    classes: dict[str, ClassInfo] = field(default_factory=dict)
    functions: dict[str, ast.FunctionDef] = field(default_factory=dict)
    assigns: dict[str, ast.AST] = field(default_factory=dict)  # module-level NAME = value
    quiet: list | None = None  # canon.quiet_collect of the tree (kept across overlays)

    def __repr__(self) -> str:
        return f"<module {self.relpath}>"


def _modname(relpath: str) -> str:
    p = relpath[:-3] if relpath.endswith(".py") else relpath
    parts = ["gemseo", *p.split("/")]
    if parts[-1] == "__init__":
        parts.pop()
    return ".".join(parts)


def _collect_class(node: ast.ClassDef, module: ModuleInfo, outer: str | None) -> ClassInfo:
    qual = f"{outer}.{node.name}" if outer else node.name
    info = ClassInfo(
        name=node.name,
        qualname=qual,
        module=module,
        node=node,
        base_exprs=[b for b in (dotted(x) for x in node.bases) if b],
    )
    for stmt in node.body:
        if isinstance(stmt, FUNC_TYPES):
            decos = decorator_names(stmt)
            if any(d.endswith(".setter") for d in decos):
                info.setters[stmt.name] = stmt
            elif any(d.endswith(".deleter") for d in decos):
                continue
            else:
                if "property" in decos or any(d.endswith("cached_property") for d in decos):
                    info.properties.add(stmt.name)
                # singledispatch registrations keep the first definition
                if stmt.name in info.methods and any(".register" in d for d in decos):
                    continue
                info.methods[stmt.name] = stmt
        elif isinstance(stmt, ast.ClassDef):
            info.nested[stmt.name] = _collect_class(stmt, module, qual)
        elif isinstance(stmt, ast.Assign):
            for t in stmt.targets:
                if isinstance(t, ast.Name):
                    info.class_attrs[t.id] = stmt
        elif isinstance(stmt, ast.AnnAssign) and isinstance(stmt.target, ast.Name):
            info.class_attrs[stmt.target.id] = stmt
    return info


def _collect_imports(tree: ast.Module, modname: str, is_pkg: bool) -> dict[str, str]:
    out: dict[str, str] = {}
    for node in ast.walk(tree):
        if isinstance(node, ast.Import):
            for a in node.names:
                out[a.asname or a.name.split(".")[0]] = a.name if a.asname else a.name.split(".")[0]
        elif isinstance(node, ast.ImportFrom):
            base = node.module or ""
            if node.level:
                parts = modname.split(".")
                if not is_pkg:
                    parts = parts[:-1]
                if node.level > 1:
                    parts = parts[: -(node.level - 1)]
                base = ".".join([*parts, base]) if base else ".".join(parts)
            for a in node.names:
                out[a.asname or a.name] = f"{base}.{a.name}"
    return out


_REFNAMES: dict | None = None
NORMALISED: list[str] = []  # what the local normalisation did in this process (reported in the evidence)


def _reference_digest(rel: str) -> str | None:
    global _REFNAMES
    if _REFNAMES is None:
        path = Path(__file__).with_name("refnames.json")
        _REFNAMES = json.loads(path.read_text()) if path.exists() else {}
    return _REFNAMES.get(f"#digest:{rel}")


def _normalise_locals(rel: str, tree: ast.Module) -> None:
    """Map locals renamed / extracted w.r.t. the reference tree back to the reference shape (see gv.canon)."""
    global _REFNAMES
    from gv import canon

    if _REFNAMES is None:
        path = Path(__file__).with_name("refnames.json")
        _REFNAMES = json.loads(path.read_text()) if path.exists() else {}
    if not _REFNAMES:
        return

    try:
        for line in canon.inline_new_helpers(tree, rel, _REFNAMES):
            NORMALISED.append(line)
    except Exception:  # noqa: BLE001 -- a normalisation problem must never break the analysis
        pass

    def visit(node, prefix):
        for ch in ast.iter_child_nodes(node):
            if isinstance(ch, ast.ClassDef):
                visit(ch, f"{prefix}{ch.name}.")
            elif isinstance(ch, FUNC_TYPES):
                ref = _REFNAMES.get(f"{rel}::{prefix}{ch.name}")
                if ref is not None:
                    try:
                        ren, inl = canon.normalise_locals(ch, ref)
                        ext = canon.reextract_locals(ch, ref)
                    except Exception:  # noqa: BLE001 -- a normalisation problem must never break the analysis
                        ren, inl, ext = {}, [], []
                    if ren or inl or ext:
                        NORMALISED.append(f"{rel}::{prefix}{ch.name}: renamed {ren}, inlined {inl}, re-extracted {ext}")
                visit(ch, f"{prefix}{ch.name}.")
            elif isinstance(ch, (ast.If, ast.Try, ast.With)):
                visit(ch, prefix)

    visit(tree, "")


class Index:
    """Parsed view of ``src/gemseo``."""

    def __init__(self, root: Path | None = None, overlay: dict[str, str] | None = None, _base: "Index | None" = None):
        self.root = (root or repo_root()) / "src" / "gemseo"
        self.modules: dict[str, ModuleInfo] = {}
        self._fresh: list = []
        self._by_modname: dict[str, ModuleInfo] = {}
        self._classes_by_name: dict[str, list[ClassInfo]] = {}
        self._mro_cache: dict[str, list[ClassInfo]] = {}
        self._sub_cache: dict[str, list[ClassInfo]] | None = None
        self.n_functions = 0
        overlay = overlay or {}
        if _base is not None:
            for rel, mod in _base.modules.items():
                if rel in overlay:
                    self._add_module(rel, overlay[rel])
                else:
                    # re-wrap the (unchanged) tree: class infos are rebuilt because base
                    # resolution may change with the overlay
                    self._add_module(rel, mod.source, tree=mod.tree, reuse=mod)
            for rel in overlay:
                if rel not in self.modules:
                    self._add_module(rel, overlay[rel])
        else:
            if not self.root.is_dir():
                raise AnalysisError(f"source directory {self.root} not found")
            for path in sorted(self.root.rglob("*.py")):
                rel = path.relative_to(self.root).as_posix()
                if rel in overlay:
                    src = overlay[rel]
                else:
                    try:
                        src = path.read_text(encoding="utf-8")
                    except OSError as e:  # pragma: no cover
                        raise AnalysisError(f"cannot read {rel}: {e}") from e
                self._add_module(rel, src)
        self._link()

    # ------------------------------------------------------------------ build
    def _add_module(self, rel: str, src: str, tree: ast.Module | None = None, reuse: ModuleInfo | None = None) -> None:
        if tree is None:
            try:
                tree = ast.parse(src, filename=rel)
            except SyntaxError as e:
                raise AnalysisError(f"cannot parse {rel}: {e}") from e
            if os.environ.get("GV_NO_CANON") != "1":
                from gv import canon as _canon0

                _canon0.canonicalise_idioms(tree)
                self._fresh.append((rel, tree))
                if _reference_digest(rel) != hashlib.sha1(src.encode()).hexdigest():
                    ref_imports = (_REFNAMES or {}).get(f"#imports:{rel}")
                    if ref_imports:
                        try:
                            for line in _canon0.normalise_imports(tree, _collect_imports(tree, _modname(rel), rel.endswith("__init__.py")), ref_imports, frozenset((_REFNAMES or {}).get(f"#qualified:{rel}", ()))):
                                NORMALISED.append(f"{rel}: {line}")
                        except Exception:  # noqa: BLE001 -- a normalisation problem must never break the analysis
                            pass
        mod = ModuleInfo(relpath=rel, modname=_modname(rel), tree=tree, source=src)
        mod.quiet = getattr(reuse, "quiet", None)
        if reuse is not None:
            mod.imports = reuse.imports
        else:
            mod.imports = _collect_imports(tree, mod.modname, rel.endswith("__init__.py"))
        for stmt in tree.body:
            self._collect_top(stmt, mod)
        self.modules[rel] = mod
        self._by_modname[mod.modname] = mod

    def _collect_top(self, stmt: ast.stmt, mod: ModuleInfo) -> None:
        if isinstance(stmt, ast.ClassDef):
            mod.classes[stmt.name] = _collect_class(stmt, mod, None)
        elif isinstance(stmt, FUNC_TYPES):
            mod.functions.setdefault(stmt.name, stmt)
        elif isinstance(stmt, ast.Assign):
            for t in stmt.targets:
                if isinstance(t, ast.Name):
                    mod.assigns[t.id] = stmt.value
        elif isinstance(stmt, ast.AnnAssign) and isinstance(stmt.target, ast.Name) and stmt.value:
            mod.assigns[stmt.target.id] = stmt.value
        elif isinstance(stmt, (ast.If, ast.Try)):
            for sub in ast.iter_child_nodes(stmt):
                if isinstance(sub, ast.stmt):
                    self._collect_top(sub, mod)
                elif isinstance(sub, ast.ExceptHandler):
                    for s2 in sub.body:
                        self._collect_top(s2, mod)

    def _all_classes(self):
        for mod in self.modules.values():
            stack = list(mod.classes.values())
            while stack:
                c = stack.pop()
                yield c
                stack.extend(c.nested.values())

    def _link(self) -> None:
        if os.environ.get("GV_NO_CANON") != "1":
            from gv import canon

            # quiet callees of the whole analysed tree first: the local normalisation consults them
            entries = []
            for mod in self.modules.values():
                if getattr(mod, "quiet", None) is None:
                    mod.quiet = canon.quiet_collect(mod.tree)
                entries.extend(mod.quiet)
            canon.QUIET = self.quiet = canon.quiet_settle(entries)
            for rel, tree in self._fresh:
                if _reference_digest(rel) != hashlib.sha1(self.modules[rel].source.encode()).hexdigest() or rel == "utils/compatibility/openturns.py":
                    before = len(NORMALISED)
                    _normalise_locals(rel, tree)
                    if any("helper dropped" in line for line in NORMALISED[before:]):
                        # the class tables were collected at parse time: collect them again without the dropped helpers
                        mod = self.modules[rel]
                        mod.classes, mod.functions, mod.assigns = {}, {}, {}
                        for stmt in tree.body:
                            self._collect_top(stmt, mod)
                if os.environ.get("GV_CANON_TESTS", "1") == "1":
                    canon.canonicalise_tests(tree)
            self._fresh = []
            funcs, classes = canon.build_signatures(self.modules.values())
            self.signatures = (funcs, classes)
            for mod in self.modules.values():
                canon.canonicalise_calls(mod.tree, funcs, classes)
        for c in self._all_classes():
            self._classes_by_name.setdefault(c.name, []).append(c)
            self.n_functions += len(c.methods) + len(c.setters)
        for mod in self.modules.values():
            self.n_functions += len(mod.functions)
        for c in self._all_classes():
            c.bases = [b for b in (self._resolve_base(c, e) for e in c.base_exprs) if b is not None]

    def _resolve_base(self, cls: ClassInfo, expr: str) -> ClassInfo | None:
        mod = cls.module
        head, _, rest = expr.partition(".")
        # same module
        if head in mod.classes and not rest:
            cand = mod.classes[head]
            if cand is not cls:
                return cand
        if head in mod.classes and rest:
            cur = mod.classes[head]
            for part in rest.split("."):
                cur = cur.nested.get(part)
                if cur is None:
                    return None
            return cur
        q = mod.imports.get(head)
        if q is None:
            return None
        return self.resolve_qualified(q + ("." + rest if rest else ""))

    def resolve_qualified(self, q: str, _depth: int = 0) -> ClassInfo | None:
        """Resolve ``gemseo.pkg.mod.Class[.Nested]`` (follows re-exports)."""
        if not q.startswith("gemseo") or _depth > 6:
            return None
        parts = q.split(".")
        for cut in range(len(parts) - 1, 0, -1):
            mod = self._by_modname.get(".".join(parts[:cut]))
            if mod is None:
                continue
            rest = parts[cut:]
            cur = mod.classes.get(rest[0])
            if cur is None:
                tgt = mod.imports.get(rest[0])
                if tgt:
                    return self.resolve_qualified(".".join([tgt, *rest[1:]]), _depth + 1)
                return None
            for part in rest[1:]:
                cur = cur.nested.get(part)
                if cur is None:
                    return None
            return cur
        return None

    # ---------------------------------------------------------------- queries
    def overlay(self, files: dict[str, str]) -> "Index":
        return Index(self.root.parent.parent, overlay=files, _base=self)

    def module(self, relpath: str) -> ModuleInfo:
        try:
            return self.modules[relpath]
        except KeyError:
            raise AnalysisError(f"anchor missing: module {relpath}") from None

    def cls(self, relpath: str, qualname: str) -> ClassInfo:
        mod = self.module(relpath)
        parts = qualname.split(".")
        cur = mod.classes.get(parts[0])
        for p in parts[1:]:
            if cur is None:
                break
            cur = cur.nested.get(p)
        if cur is None:
            raise AnalysisError(f"anchor missing: class {qualname} in {relpath}")
        return cur

    def func(self, relpath: str, name: str) -> ast.FunctionDef:
        mod = self.module(relpath)
        if name not in mod.functions:
            raise AnalysisError(f"anchor missing: function {name} in {relpath}")
        return mod.functions[name]

    def method(self, relpath: str, qualname: str, name: str, *, setter: bool = False) -> ast.FunctionDef:
        c = self.cls(relpath, qualname)
        table = c.setters if setter else c.methods
        if name not in table:
            # private names may be given un-mangled
            raise AnalysisError(f"anchor missing: method {qualname}.{name} in {relpath}")
        return table[name]

    def classes_named(self, name: str) -> list[ClassInfo]:
        return list(self._classes_by_name.get(name, []))

    def all_classes(self):
        return list(self._all_classes())

    def mro(self, cls: ClassInfo) -> list[ClassInfo]:
        if cls.key in self._mro_cache:
            return self._mro_cache[cls.key]
        self._mro_cache[cls.key] = [cls]  # cycle guard
        seqs = [self.mro(b)[:] for b in cls.bases] + [list(cls.bases)]
        res = [cls]
        while True:
            seqs = [s for s in seqs if s]
            if not seqs:
                break
            for s in seqs:
                cand = s[0]
                if not any(cand in t[1:] for t in seqs):
                    break
            else:  # inconsistent: fall back to DFS order
                cand = seqs[0][0]
            res.append(cand)
            for s in seqs:
                if s and s[0] == cand:
                    del s[0]
        # dedupe
        out, seen = [], set()
        for c in res:
            if c.key not in seen:
                seen.add(c.key)
                out.append(c)
        self._mro_cache[cls.key] = out
        return out

    def resolve_method(self, cls: ClassInfo, name: str, *, after: ClassInfo | None = None, setter: bool = False):
        """Find ``name`` along the MRO (``after``: start after that class, for super())."""
        mro = self.mro(cls)
        if after is not None:
            idx = [i for i, c in enumerate(mro) if c == after]
            mro = mro[idx[0] + 1 :] if idx else []
        for c in mro:
            table = c.setters if setter else c.methods
            if name in table:
                return c, table[name]
        return None

    def is_subclass(self, cls: ClassInfo, base: ClassInfo) -> bool:
        return base in self.mro(cls)

    def subclasses(self, base: ClassInfo, *, strict: bool = True) -> list[ClassInfo]:
        out = []
        for c in self._all_classes():
            if strict and c == base:
                continue
            if base in self.mro(c):
                out.append(c)
        return sorted(out, key=lambda c: c.key)

    def overriders(self, base: ClassInfo, name: str) -> list[tuple[ClassInfo, ast.FunctionDef]]:
        """All classes at or below ``base`` that define ``name`` themselves."""
        out = []
        for c in [base, *self.subclasses(base)]:
            if name in c.methods:
                out.append((c, c.methods[name]))
        return out

    def stats(self) -> dict:
        return {
            "files_parsed": len(self.modules),
            "classes": sum(1 for _ in self._all_classes()),
            "functions": self.n_functions,
        }


def digest_of_tree(root: Path | None = None) -> str:
    import hashlib

    base = (root or repo_root()) / "src" / "gemseo"
    h = hashlib.sha256()
    for p in sorted(base.rglob("*.py")):
        st = p.stat()
        h.update(f"{p.relative_to(base)}:{st.st_size}:{st.st_mtime_ns}\n".encode())
    return h.hexdigest()[:16]
